"""Small surface grids as raw arrays (vertices (3,N) float64, elements (3,M) uint32, domains (M,)).

Everything here is a deterministic function of its arguments; randomness (renumbering,
rotation) comes from a `random.Random` handed in by the caller.
"""

import numpy as np


def _pack(verts, elems, domains=None):
    v = np.array(verts, dtype=np.float64).T.copy()
    e = np.array(elems, dtype=np.uint32).T.copy()
    if domains is None:
        domains = [0] * e.shape[1]
    d = np.array(domains, dtype=np.uint32)
    return v, e, d


def tetrahedron():
    verts = [(1, 1, 1), (1, -1, -1), (-1, 1, -1), (-1, -1, 1)]
    elems = [(0, 1, 2), (0, 3, 1), (0, 2, 3), (1, 3, 2)]
    return _pack(verts, elems, [0, 1, 2, 3])


def octahedron():
    verts = [(1, 0, 0), (-1, 0, 0), (0, 1, 0), (0, -1, 0), (0, 0, 1), (0, 0, -1)]
    elems = [
        (0, 2, 4),
        (2, 1, 4),
        (1, 3, 4),
        (3, 0, 4),
        (2, 0, 5),
        (1, 2, 5),
        (3, 1, 5),
        (0, 3, 5),
    ]
    return _pack(verts, elems, [0, 0, 0, 0, 1, 1, 1, 1])


def cube():
    """Unit cube, 12 triangles, one domain index per face (1..6), outward normals."""
    verts = [
        (0, 0, 0),
        (1, 0, 0),
        (0, 1, 0),
        (1, 1, 0),
        (0, 0, 1),
        (1, 0, 1),
        (0, 1, 1),
        (1, 1, 1),
    ]
    elems = [
        (0, 2, 1),
        (1, 2, 3),  # z=0
        (4, 5, 6),
        (5, 7, 6),  # z=1
        (0, 1, 4),
        (1, 5, 4),  # y=0
        (2, 6, 3),
        (3, 6, 7),  # y=1
        (0, 4, 2),
        (2, 4, 6),  # x=0
        (1, 3, 5),
        (3, 7, 5),  # x=1
    ]
    return _pack(verts, elems, [1, 1, 2, 2, 3, 3, 4, 4, 5, 5, 6, 6])


def screen(n=1):
    """Open unit square screen with 2*n*n triangles; two domain indices (left/right half)."""
    verts = []
    for j in range(n + 1):
        for i in range(n + 1):
            verts.append((i / n, j / n, 0.0))
    elems = []
    doms = []

    def vid(i, j):
        return j * (n + 1) + i

    for j in range(n):
        for i in range(n):
            a, b, c, d = vid(i, j), vid(i + 1, j), vid(i, j + 1), vid(i + 1, j + 1)
            elems.append((a, b, d))
            elems.append((a, d, c))
            dom = 0 if 2 * i < n else 1
            doms += [dom, dom]
    return _pack(verts, elems, doms)


def lshape():
    """L-shaped flat screen, 6 triangles, three domain indices."""
    verts = [(0, 0, 0), (1, 0, 0), (2, 0, 0), (0, 1, 0), (1, 1, 0), (2, 1, 0), (0, 2, 0), (1, 2, 0)]
    elems = [(0, 1, 4), (0, 4, 3), (1, 2, 5), (1, 5, 4), (3, 4, 7), (3, 7, 6)]
    return _pack(verts, elems, [0, 0, 1, 1, 2, 2])


def torus(n=3, m=3):
    """n x m torus, 2*n*m triangles."""
    R, r = 2.0, 0.7
    verts = []
    for i in range(n):
        for j in range(m):
            u = 2 * np.pi * i / n
            v = 2 * np.pi * j / m
            verts.append(((R + r * np.cos(v)) * np.cos(u), (R + r * np.cos(v)) * np.sin(u), r * np.sin(v)))
    elems = []
    doms = []

    def vid(i, j):
        return (i % n) * m + (j % m)

    for i in range(n):
        for j in range(m):
            a, b, c, d = vid(i, j), vid(i + 1, j), vid(i, j + 1), vid(i + 1, j + 1)
            elems.append((a, b, d))
            elems.append((a, d, c))
            doms += [i % 2, i % 2]
    return _pack(verts, elems, doms)


def fan():
    """Three triangles sharing one edge (non-manifold)."""
    verts = [(0, 0, 0), (0, 0, 1), (1, 0, 0.5), (-0.5, 0.8, 0.5), (-0.5, -0.8, 0.5)]
    elems = [(0, 1, 2), (0, 1, 3), (0, 1, 4)]
    return _pack(verts, elems, [0, 1, 2])


def two_tetrahedra():
    v, e, d = tetrahedron()
    v2 = v + np.array([[5.0], [0.5], [0.25]])
    return np.hstack([v, v2]), np.hstack([e, e + 4]).astype(np.uint32), np.hstack([d, d + 4]).astype(np.uint32)


def pinched():
    """Two tetrahedra sharing exactly one vertex (non-manifold vertex)."""
    v, e, d = tetrahedron()
    # second tetrahedron: reflect through the shared vertex 0
    p0 = v[:, 0:1]
    v2 = 2 * p0 - v[:, 1:]
    verts = np.hstack([v, v2])
    remap = {0: 0, 1: 4, 2: 5, 3: 6}
    e2 = np.array([[remap[int(x)] for x in col] for col in e.T], dtype=np.uint32).T
    # point reflection reverses orientation: swap two vertices of each reflected triangle
    e2 = e2[[0, 2, 1], :]
    return verts, np.hstack([e, e2]).astype(np.uint32), np.hstack([d, d + 4]).astype(np.uint32)


def moebius(n=7):
    """Moebius strip with 2n triangles (non-orientable, one boundary curve)."""
    verts = []
    for i in range(n):
        t = 2 * np.pi * i / n
        for s_ in (-0.4, 0.4):
            r = 1.5 + s_ * np.cos(t / 2)
            verts.append((r * np.cos(t), r * np.sin(t), s_ * np.sin(t / 2)))
    elems = []
    doms = []
    for i in range(n):
        a, b = 2 * i, 2 * i + 1
        if i + 1 < n:
            c, dd = 2 * (i + 1), 2 * (i + 1) + 1
        else:
            c, dd = 1, 0  # glue with a twist
        elems.append((a, c, b))
        elems.append((b, c, dd))
        doms += [i % 2, i % 2]
    return _pack(verts, elems, doms)


def bicone(n=12):
    """Closed double cone: two poles of valence n, 2n triangles."""
    verts = [(0.0, 0.0, 1.0), (0.0, 0.0, -1.0)]
    for i in range(n):
        t = 2 * np.pi * i / n
        verts.append((np.cos(t), np.sin(t), 0.0))
    elems = []
    doms = []
    for i in range(n):
        a, b = 2 + i, 2 + (i + 1) % n
        elems.append((0, a, b))
        elems.append((1, b, a))
        doms += [0, 1]
    return _pack(verts, elems, doms)


FAMILIES = {
    "tetrahedron": tetrahedron,
    "octahedron": octahedron,
    "cube": cube,
    "screen1": lambda: screen(1),
    "screen2": lambda: screen(2),
    "lshape": lshape,
    "torus": torus,
    "fan": fan,
    "two_tetrahedra": two_tetrahedra,
    "pinched": pinched,
    "moebius": moebius,
    "bicone12": lambda: bicone(12),
    "bicone40": lambda: bicone(40),
    "bicone70": lambda: bicone(70),
}

CLOSED = {"tetrahedron", "octahedron", "cube", "torus", "two_tetrahedra"}


def refine(v, e, d):
    """Uniform midpoint refinement on raw arrays (independent of Grid.refine)."""
    nv = v.shape[1]
    edge_mid = {}
    verts = [v[:, i] for i in range(nv)]

    def mid(a, b):
        key = (min(a, b), max(a, b))
        if key not in edge_mid:
            edge_mid[key] = len(verts)
            verts.append(0.5 * (v[:, a] + v[:, b]))
        return edge_mid[key]

    elems = []
    doms = []
    for k in range(e.shape[1]):
        a, b, c = (int(x) for x in e[:, k])
        ab, bc, ca = mid(a, b), mid(b, c), mid(c, a)
        elems += [(a, ab, ca), (ab, b, bc), (ca, bc, c), (ab, bc, ca)]
        doms += [int(d[k])] * 4
    return (
        np.array(verts, dtype=np.float64).T.copy(),
        np.array(elems, dtype=np.uint32).T.copy(),
        np.array(doms, dtype=np.uint32),
    )


def transform(v, e, d, rng, renumber=True, rotate=True, affine=True):
    """Random relabelling of vertices and elements, local vertex rotation, rigid motion."""
    nv, ne = v.shape[1], e.shape[1]
    v = v.copy()
    e = e.copy()
    d = d.copy()
    if renumber:
        vp = list(range(nv))
        rng.shuffle(vp)
        vp = np.array(vp)  # old -> new
        nvv = np.empty_like(v)
        nvv[:, vp] = v
        v = nvv
        e = vp[e].astype(np.uint32)
        ep = list(range(ne))
        rng.shuffle(ep)
        ep = np.array(ep)
        e = e[:, ep]
        d = d[ep]
    if rotate:
        for k in range(ne):
            s = rng.randrange(3)
            e[:, k] = np.roll(e[:, k], s)
    if affine:
        # rotation about a random axis + translation + scale
        ax = np.array([rng.uniform(-1, 1) for _ in range(3)])
        ax /= np.linalg.norm(ax) + 1e-12
        th = rng.uniform(0, 2 * np.pi)
        K = np.array([[0, -ax[2], ax[1]], [ax[2], 0, -ax[0]], [-ax[1], ax[0], 0]])
        Rm = np.eye(3) + np.sin(th) * K + (1 - np.cos(th)) * (K @ K)
        s = rng.choice([0.5, 1.0, 1.0, 2.0])
        t = np.array([[rng.uniform(-1, 1)] for _ in range(3)])
        v = s * (Rm @ v) + t
    return np.ascontiguousarray(v), np.ascontiguousarray(e.astype(np.uint32)), d.astype(np.uint32)


def make_raw(family, refinements=0, rng=None, renumber=False, rotate=False, affine=False, shift=None):
    v, e, d = FAMILIES[family]()
    for _ in range(refinements):
        v, e, d = refine(v, e, d)
    if rng is not None and (renumber or rotate or affine):
        v, e, d = transform(v, e, d, rng, renumber, rotate, affine)
    if shift is not None:
        v = v + np.array(shift, dtype=np.float64).reshape(3, 1)
    return v, e, d


def to_grid(raw):
    import bempp_cl.api

    v, e, d = raw
    return bempp_cl.api.Grid(v.copy(), e.copy(), d.copy())


def raw_to_json(raw):
    v, e, d = raw
    return {"vertices": v.tolist(), "elements": e.tolist(), "domain_indices": d.tolist()}


def raw_from_json(obj):
    return (
        np.array(obj["vertices"], dtype=np.float64),
        np.array(obj["elements"], dtype=np.uint32),
        np.array(obj["domain_indices"], dtype=np.uint32),
    )
