"""Operator specifications (plain dicts) and their construction through the public API."""

import numpy as np

SCALAR_OPS = ("single_layer", "double_layer", "adjoint_double_layer", "hypersingular")
SCALAR_FAMILIES = ("laplace", "helmholtz", "modified_helmholtz")
MAXWELL_OPS = ("electric_field", "magnetic_field")
SPARSE_OPS = ("identity", "laplace_beltrami")
POTENTIAL_OPS = {
    "laplace": ("single_layer", "double_layer"),
    "helmholtz": ("single_layer", "double_layer"),
    "modified_helmholtz": ("single_layer", "double_layer"),
    "maxwell": ("electric_field", "magnetic_field"),
}
FAR_FIELD_OPS = {
    "helmholtz": ("single_layer", "double_layer"),
    "maxwell": ("electric_field", "magnetic_field"),
}


def wavenumber_of(spec):
    w = spec.get("wavenumber")
    if w is None:
        return None
    if isinstance(w, (list, tuple)):
        if w[1] == 0:
            return float(w[0])
        return complex(w[0], w[1])
    return float(w)


def all_boundary_specs(wavenumbers=(2.5, (1.5, 0.7)), omega=1.3):
    out = []
    for op in SCALAR_OPS:
        out.append({"family": "laplace", "op": op})
    for w in wavenumbers:
        wl = list(w) if isinstance(w, (tuple, list)) else [float(w), 0.0]
        for op in SCALAR_OPS:
            out.append({"family": "helmholtz", "op": op, "wavenumber": wl})
    for op in SCALAR_OPS:
        out.append({"family": "modified_helmholtz", "op": op, "wavenumber": float(omega)})
    for w in wavenumbers:
        wl = list(w) if isinstance(w, (tuple, list)) else [float(w), 0.0]
        for op in MAXWELL_OPS:
            out.append({"family": "maxwell", "op": op, "wavenumber": wl})
    return out


def all_potential_specs(wavenumbers=(2.5, (1.5, 0.7)), omega=1.3):
    out = []
    for op in POTENTIAL_OPS["laplace"]:
        out.append({"family": "laplace", "op": op})
    for w in wavenumbers:
        wl = list(w) if isinstance(w, (tuple, list)) else [float(w), 0.0]
        for op in POTENTIAL_OPS["helmholtz"]:
            out.append({"family": "helmholtz", "op": op, "wavenumber": wl})
        for op in POTENTIAL_OPS["maxwell"]:
            out.append({"family": "maxwell", "op": op, "wavenumber": wl})
    for op in POTENTIAL_OPS["modified_helmholtz"]:
        out.append({"family": "modified_helmholtz", "op": op, "wavenumber": float(omega)})
    return out


def space_roles(spec):
    """Return the admissible space kinds (domain_kinds, dual_kinds) for a boundary operator spec."""
    if spec["family"] == "maxwell":
        return ("RWG", "BC"), ("SNC", "RBC")
    if spec["family"] == "sparse" and spec["op"] == "laplace_beltrami":
        return ("P1",), ("P1",)
    if spec["op"] == "hypersingular":
        return ("P1", "DP1", "DUAL1"), ("P1", "DP1", "DUAL1")
    return ("DP0", "DP1", "P1", "DUAL0", "DUAL1"), ("DP0", "DP1", "P1", "DUAL0", "DUAL1")


def build_boundary(spec, domain, range_, dual, assembler, parameters=None, precision=None):
    """Create a boundary operator through the public factories."""
    import bempp_cl.api
    from bempp_cl.api.operators import boundary

    fam = spec["family"]
    op = spec["op"]
    kw = {"parameters": parameters, "precision": precision}
    if assembler is not None:
        kw["assembler"] = assembler
    if fam == "sparse":
        kw.pop("assembler", None)
        return getattr(boundary.sparse, op)(domain, range_, dual, **kw)
    mod = getattr(boundary, fam)
    f = getattr(mod, op)
    if fam == "laplace":
        return f(domain, range_, dual, **kw)
    return f(domain, range_, dual, wavenumber_of(spec), **kw)


def build_potential(spec, space, points, assembler="dense", parameters=None, precision=None):
    from bempp_cl.api.operators import potential

    fam = spec["family"]
    f = getattr(getattr(potential, fam), spec["op"])
    kw = {"parameters": parameters, "assembler": assembler, "precision": precision}
    if fam == "laplace":
        return f(space, points, **kw)
    return f(space, points, wavenumber_of(spec), **kw)


def build_far_field(spec, space, points, parameters=None, precision=None):
    from bempp_cl.api.operators import far_field

    fam = spec["family"]
    f = getattr(getattr(far_field, fam), spec["op"])
    kw = {"parameters": parameters, "precision": precision}
    return f(space, points, wavenumber_of(spec), **kw)


def probe_points(n=7, raw=None, factor=2.5):
    """Deterministic evaluation points off the surface, shape (3, n).

    With `raw` given they lie on a sphere of `factor` times the bounding radius around the
    bounding-box centre of the grid, otherwise around (6, 6, 6) with radius 3.
    """
    k = np.arange(n)
    phi = 2.399963229728653 * k
    z = 1 - 2 * (k + 0.5) / n
    r = np.sqrt(1 - z * z)
    unit = np.vstack([r * np.cos(phi), r * np.sin(phi), z])
    if raw is None:
        centre = np.array([6.3, 5.8, 6.1]).reshape(3, 1)
        radius = 3.0
    else:
        v = raw[0]
        lo = v.min(axis=1)
        hi = v.max(axis=1)
        centre = (0.5 * (lo + hi)).reshape(3, 1)
        radius = factor * 0.5 * float(np.linalg.norm(hi - lo)) + 0.1
    return np.ascontiguousarray(centre + radius * unit)


def op_label(spec):
    w = spec.get("wavenumber")
    return "%s.%s%s" % (spec["family"], spec["op"], "" if w is None else "@%s" % (w,))
