"""Space specifications: plain dicts that can be written to a replay file."""

import numpy as np

# kind -> (bempp kind, degree)
KINDS = {
    "DP0": ("DP", 0),
    "DP1": ("DP", 1),
    "P1": ("P", 1),
    "RWG": ("RWG", 0),
    "SNC": ("SNC", 0),
    "DUAL0": ("DUAL", 0),
    "DUAL1": ("DUAL", 1),
    "BC": ("BC", 0),
    "RBC": ("RBC", 0),
}

SCALAR = ("DP0", "DP1", "P1", "DUAL0", "DUAL1")
VECTOR = ("RWG", "SNC", "BC", "RBC")
BARYCENTRIC = ("DUAL0", "DUAL1", "BC", "RBC")
# kinds that take include_boundary_dofs / truncate_at_segment_edge meaningfully
EDGE_OPTIONS = ("P1", "RWG", "SNC", "DUAL0", "BC", "RBC")


def make_space(grid, spec):
    """Build a bempp function space from a spec dict."""
    import bempp_cl.api

    kind, degree = KINDS[spec["kind"]]
    kwargs = {}
    if spec.get("segments") is not None:
        kwargs["segments"] = list(spec["segments"])
    if spec.get("support_elements") is not None:
        kwargs["support_elements"] = np.array(spec["support_elements"], dtype=np.uint32)
    if spec.get("swapped_normals") is not None:
        kwargs["swapped_normals"] = list(spec["swapped_normals"])
    if spec.get("include_boundary_dofs") is not None:
        kwargs["include_boundary_dofs"] = bool(spec["include_boundary_dofs"])
    if spec.get("truncate_at_segment_edge") is not None:
        kwargs["truncate_at_segment_edge"] = bool(spec["truncate_at_segment_edge"])
    return bempp_cl.api.function_space(grid, kind, degree, scatter=False, **kwargs)


def random_spec(rng, raw, kinds, allow_segments=True, allow_swapped=True, p_restrict=0.5):
    """Draw a space spec for the grid given by raw arrays."""
    v, e, d = raw
    kind = rng.choice(list(kinds))
    spec = {"kind": kind}
    domains = sorted(set(int(x) for x in d))
    ne = e.shape[1]
    restricted = False
    if allow_segments and rng.random() < p_restrict:
        if len(domains) > 1 and rng.random() < 0.6:
            k = rng.randint(1, len(domains) - 1)
            spec["segments"] = sorted(rng.sample(domains, k))
            restricted = True
        elif ne > 2:
            k = rng.randint(max(1, ne // 3), ne - 1)
            spec["support_elements"] = sorted(rng.sample(range(ne), k))
            restricted = True
    if kind in EDGE_OPTIONS and (restricted or rng.random() < 0.3):
        spec["include_boundary_dofs"] = rng.random() < 0.6
        spec["truncate_at_segment_edge"] = rng.random() < 0.5
    if allow_swapped and len(domains) > 1 and rng.random() < 0.25:
        spec["swapped_normals"] = sorted(rng.sample(domains, rng.randint(1, len(domains) - 1)))
    return spec


def spec_key(spec):
    return tuple(sorted((k, tuple(v) if isinstance(v, list) else v) for k, v in spec.items()))
