"""Process bootstrap shared by all checks: seams that need no hook in /repo.

* re-exec once with PYTHONHASHSEED=0 (set iteration order is otherwise per process)
* NUMBA_THREADING_LAYER=workqueue (fork-safe), thread count chosen by the check
* sys.path: optional scratch copy of the repository (VERIF_REPO) first, then /verif/fakes
  so that `import exafmm` resolves to the simulated peer
* ids: bempp_cl.api.utils.helpers.create_unique_id replaced by a per-run counter
* cwd: private scratch directory (FMM scratch files go to ./.exafmm)
"""

import atexit
import os
import shutil
import sys

# one BLAS/OpenMP thread per process: the harness parallelises over processes
for _v in ("OPENBLAS_NUM_THREADS", "OMP_NUM_THREADS", "MKL_NUM_THREADS"):
    os.environ.setdefault(_v, "1")

VERIF_ROOT = os.path.dirname(os.path.dirname(os.path.abspath(__file__)))


def install_arena_allocator():
    """Optional performance aid for the harness processes (see native/arena.c)."""
    if os.environ.get("VERIF_NO_ARENA"):
        return False
    so = os.path.join(VERIF_ROOT, "native", "_arena.so")
    if not os.path.exists(so):
        return False
    try:
        import ctypes

        lib = ctypes.PyDLL(so)
        lib.verif_install_arena()
        return True
    except Exception:  # noqa: BLE001
        return False


ARENA_INSTALLED = install_arena_allocator()
FAKES = os.path.join(VERIF_ROOT, "fakes")
# the self-tests redirect these so that runs against mutated scratch copies never touch the real files
REPLAYS = os.environ.get("VERIF_REPLAY_DIR") or os.path.join(VERIF_ROOT, "replays")
EVIDENCE = os.environ.get("VERIF_EVIDENCE_DIR") or os.path.join(VERIF_ROOT, "evidence")

_SCRATCH = None
_SCRATCH_PID = None


def reexec_with_hashseed(hashseed="0"):
    """Re-exec the interpreter once so that PYTHONHASHSEED is pinned."""
    want = os.environ.get("VERIF_HASHSEED", hashseed)
    if os.environ.get("PYTHONHASHSEED") != want:
        env = dict(os.environ)
        env["PYTHONHASHSEED"] = want
        env.setdefault("NUMBA_THREADING_LAYER", "workqueue")
        os.execve(sys.executable, [sys.executable] + sys.argv, env)


def setup_paths():
    repo = os.environ.get("VERIF_REPO")
    if repo:
        repo = os.path.abspath(repo)
        if repo in sys.path:
            sys.path.remove(repo)
        sys.path.insert(0, repo)
    if FAKES not in sys.path:
        sys.path.insert(1 if repo else 0, FAKES)
    if VERIF_ROOT not in sys.path:
        sys.path.append(VERIF_ROOT)


def repo_root():
    """Directory bempp_cl is imported from (for the evidence file)."""
    import bempp_cl

    return os.path.dirname(os.path.dirname(os.path.abspath(bempp_cl.__file__)))


def scratch_dir():
    """Create (once per process) and chdir into a private scratch directory."""
    global _SCRATCH, _SCRATCH_PID
    if _SCRATCH is None or _SCRATCH_PID != os.getpid() or not os.path.isdir(_SCRATCH):
        _SCRATCH_PID = os.getpid()
        base = os.path.join(VERIF_ROOT, ".scratch")
        os.makedirs(base, exist_ok=True)
        _SCRATCH = os.path.join(base, "p%d" % os.getpid())
        os.makedirs(_SCRATCH, exist_ok=True)
        pid = os.getpid()

        def _cleanup(path=_SCRATCH, pid=pid):
            if os.getpid() == pid:
                shutil.rmtree(path, ignore_errors=True)

        atexit.register(_cleanup)
    os.chdir(_SCRATCH)
    return _SCRATCH


def clean_scratch():
    """Empty the private scratch directory (a fresh process starts in a fresh directory)."""
    d = scratch_dir()
    for name in os.listdir(d):
        p = os.path.join(d, name)
        if os.path.isdir(p) and not os.path.islink(p):
            shutil.rmtree(p, ignore_errors=True)
        else:
            try:
                os.unlink(p)
            except OSError:
                pass
    return d


def bootstrap(threads=None):
    """Call before importing bempp_cl."""
    os.environ.setdefault("NUMBA_THREADING_LAYER", "workqueue")
    if threads is not None:
        os.environ["NUMBA_NUM_THREADS"] = str(threads)
    setup_paths()
    import warnings

    warnings.filterwarnings("ignore")
    # bempp prints "Could not find Gmsh" on import; keep stdout clean for the harness
    import io
    import contextlib

    buf = io.StringIO()
    with contextlib.redirect_stdout(buf):
        import bempp_cl.api  # noqa: F401
    install_id_counter()
    capture_pristine()
    scratch_dir()
    os.makedirs(REPLAYS, exist_ok=True)
    os.makedirs(EVIDENCE, exist_ok=True)


class IdCounter(object):
    """Deterministic replacement for uuid4-based ids.

    Like uuid4, an id is never handed out twice within one process: `epoch` grows with every reset (run or
    fresh-process emulation), so a key left behind by an earlier run can never equal a new one.  The ids
    themselves never enter an event log, only their equality structure matters.
    """

    def __init__(self):
        self.n = 0
        self.prefix = "id"
        self.epoch = 0

    def reset(self, prefix="id"):
        self.n = 0
        self.epoch += 1
        self.prefix = "%s%d" % (prefix, self.epoch)

    def __call__(self):
        self.n += 1
        return "%s-%06d" % (self.prefix, self.n)


ID_COUNTER = IdCounter()


def install_id_counter():
    import bempp_cl.api.utils.helpers as helpers

    helpers.create_unique_id = ID_COUNTER


# --------------------------------------------------------------------------------------
# process-global state of bempp-cl: snapshot / restore / fresh emulation
# --------------------------------------------------------------------------------------

PARAM_FIELDS = (
    ("quadrature", "regular"),
    ("quadrature", "singular"),
    ("fmm", "expansion_order"),
    ("fmm", "depth"),
    ("fmm", "ncrit"),
    ("fmm", "near_field_representation"),
    ("fmm", "debug"),
    ("fmm", "dense_evaluation"),
    ("assembly", "always_promote_to_double"),
    ("assembly", "discretization_type"),
)

DEFAULT_VECTOR = {
    "quadrature.regular": 4,
    "quadrature.singular": 4,
    "fmm.expansion_order": 5,
    "fmm.depth": 4,
    "fmm.ncrit": 400,
    "fmm.near_field_representation": "evaluate",
    "fmm.debug": False,
    "fmm.dense_evaluation": False,
    "assembly.always_promote_to_double": False,
    "assembly.discretization_type": "galerkin",
}


def read_params(obj):
    """Value vector of a bempp parameter object (fields a refactoring removed are skipped)."""
    out = {}
    for a, b in PARAM_FIELDS:
        grp = getattr(obj, a, None)
        if grp is not None and hasattr(grp, b):
            out["%s.%s" % (a, b)] = getattr(grp, b)
    return out


def write_params(obj, vector):
    for key, val in vector.items():
        a, b = key.split(".")
        grp = getattr(obj, a, None)
        if grp is not None and hasattr(grp, b):
            setattr(grp, b, val)


def new_params(vector):
    from bempp_cl.api.utils.parameters import DefaultParameters

    p = DefaultParameters()
    full = dict(DEFAULT_VECTOR)
    full.update(vector)
    write_params(p, full)
    return p


# ---- generic module-level state -------------------------------------------------------------------
# Any module-level (or class-level) dict / list / set / scalar of a bempp_cl module is process-global
# state a result might depend on -- including caches the harness has never heard of (a change to the
# library may add one).  A run must start from the state a fresh interpreter has, and the fresh-process
# emulation must not see the history's state, whatever it is.

_SCALARS = (type(None), bool, int, float, complex, str, bytes)
_SKIP_ATTRS = {"create_unique_id", "LOGGER", "TMP_PATH", "BEMPP_PATH", "GMSH_PATH"}


def _bempp_modules():
    return [(n, m) for n, m in sorted(sys.modules.items()) if m is not None and (n == "bempp_cl" or n.startswith("bempp_cl."))]


def _state_items(owner_dict):
    import numpy as _np

    for name, val in list(owner_dict.items()):
        if name.startswith("__") or name in _SKIP_ATTRS:
            continue
        if type(val) in (dict, list, set):
            yield name, "c", val
        elif type(val) is _np.ndarray:
            yield name, "a", val  # e.g. a quadrature table: its CONTENTS are state (in-place modification)
        elif isinstance(val, _SCALARS) or (type(val) is tuple and all(isinstance(x, _SCALARS) for x in val)):
            yield name, "s", val


def _array_members(container):
    """ndarray members of a module-level container (one level): their contents are state as well."""
    import numpy as _np

    if type(container) is dict:
        vals = list(container.values())
    elif type(container) is list:
        vals = list(container)
    else:
        return []
    return [v for v in vals if type(v) is _np.ndarray]


def import_all_bempp_modules():
    import importlib
    import pkgutil

    import bempp_cl

    for m in pkgutil.walk_packages(bempp_cl.__path__, "bempp_cl."):
        if m.name in sys.modules:
            continue
        if any(part in m.name for part in ("opencl", "fenics", "external", "remote_operator")):
            continue
        try:
            importlib.import_module(m.name)
        except Exception:  # noqa: BLE001
            continue


def _is_lib_instance(val):
    """An instance of a class defined in bempp_cl (e.g. a parameter object or a cache object)."""
    t = type(val)
    mod = getattr(t, "__module__", "") or ""
    if not (mod == "bempp_cl" or mod.startswith("bempp_cl.")):
        return False
    if isinstance(val, type) or not hasattr(val, "__dict__"):
        return False
    return True


def _owners():
    """All places where process-global state of the library can live: module dicts, class dicts of classes
    defined there, and (to depth 3) the instance dicts of library objects held at module or class level."""
    out = []
    seen = set()
    for mname, mod in _bempp_modules():
        out.append(((mname,), mod.__dict__, mod))
        for cname, cls in list(mod.__dict__.items()):
            if isinstance(cls, type) and getattr(cls, "__module__", None) == mname:
                out.append(((mname, cname), cls.__dict__, cls))
    # instances reachable from module / class level
    frontier = list(out)
    for depth in range(3):
        nxt = []
        for key, d, owner in frontier:
            for name, val in list(d.items()):
                if name.startswith("__") or name in _SKIP_ATTRS:
                    continue
                if _is_lib_instance(val) and id(val) not in seen:
                    seen.add(id(val))
                    ent = (key + (name,), vars(val), val)
                    out.append(ent)
                    nxt.append(ent)
        frontier = nxt
    return out


def capture_module_state():
    """Snapshot of all module-, class- and module-level-object state of the bempp_cl package."""
    import copy as _copy

    state = {}
    for key, d, owner in _owners():
        names = {}
        for name, kind, val in _state_items(d):
            if kind == "c":
                names[name] = (kind, val, (_copy.copy(val), [(a, a.copy()) for a in _array_members(val)]))
            elif kind == "a":
                names[name] = (kind, val, val.copy())
            else:
                names[name] = (kind, val, val)
        refs = {name: val for name, val in d.items() if not name.startswith("__") and name not in _SKIP_ATTRS and _is_lib_instance(val)}
        state[key] = (owner, names, refs)
    return state


def install_module_state(state):
    """Put every captured container / scalar / object reference back (same objects, captured contents) and
    drop state that did not exist in the captured process."""
    current = {key: (d, owner) for key, d, owner in _owners()}
    for key, (owner, names, refs) in state.items():
        d = vars(owner) if not isinstance(owner, type) else owner.__dict__
        # library objects that were rebound (e.g. a cache object replaced by a new one) come back
        for name, obj in refs.items():
            try:
                if d.get(name) is not obj:
                    setattr(owner, name, obj)
            except (AttributeError, TypeError):
                pass
        for name, kind, val in list(_state_items(d)):
            if name not in names:
                try:
                    delattr(owner, name)  # state that did not exist in the captured process
                except (AttributeError, TypeError):
                    pass
        for name, (kind, obj, saved) in names.items():
            try:
                if kind == "c":
                    content, arrays = saved
                    if type(obj) is list:
                        obj[:] = content
                    else:
                        obj.clear()
                        obj.update(content)
                    for a, a0 in arrays:
                        if a.shape == a0.shape and a.tobytes() != a0.tobytes():
                            a[...] = a0
                    if d.get(name) is not obj:
                        setattr(owner, name, obj)
                elif kind == "a":
                    if obj.shape == saved.shape and obj.tobytes() != saved.tobytes():
                        try:
                            obj[...] = saved
                        except ValueError:  # read-only table
                            pass
                    if d.get(name) is not obj:
                        setattr(owner, name, obj)
                else:
                    cur = d.get(name, _SCALARS)
                    if cur is not obj and (type(cur) is not type(obj) or cur != obj):
                        setattr(owner, name, obj)
            except (AttributeError, TypeError):
                pass
    # library objects that appeared at module level after the capture (lazily created caches) are removed
    for key, (d, owner) in current.items():
        if key in state:
            _, _, refs = state[key]
            for name, val in list(d.items()):
                if name.startswith("__") or name in _SKIP_ATTRS:
                    continue
                if _is_lib_instance(val) and name not in refs and len(key) <= 2:
                    try:
                        delattr(owner, name)
                    except (AttributeError, TypeError):
                        pass


_PRISTINE = None


def capture_pristine():
    """Called once at bootstrap, before any workload touched the library."""
    global _PRISTINE
    import bempp_cl.api

    import_all_bempp_modules()
    write_params(bempp_cl.api.GLOBAL_PARAMETERS, DEFAULT_VECTOR)
    bempp_cl.api.DEFAULT_DEVICE_INTERFACE = "numba"
    _PRISTINE = capture_module_state()


class GlobalState(object):
    """Snapshot of everything process-global the library consults."""

    def __init__(self):
        import bempp_cl.api

        self.params = read_params(bempp_cl.api.GLOBAL_PARAMETERS)
        self.generic = capture_module_state()
        self.idn = ID_COUNTER.n
        self.idp = ID_COUNTER.prefix

    def restore(self):
        import bempp_cl.api

        install_module_state(self.generic)
        write_params(bempp_cl.api.GLOBAL_PARAMETERS, self.params)
        ID_COUNTER.n = self.idn
        ID_COUNTER.prefix = self.idp


def reset_process_state(prefix="id"):
    """Put the library's process-global state into what a fresh interpreter has."""
    import bempp_cl.api

    if _PRISTINE is None:
        capture_pristine()
    install_module_state(_PRISTINE)
    write_params(bempp_cl.api.GLOBAL_PARAMETERS, DEFAULT_VECTOR)
    ID_COUNTER.reset(prefix)
    clean_scratch()
    try:
        import exafmm

        exafmm.CONTROL.reset()
    except ImportError:
        pass


class fresh_process(object):
    """Context manager: emulate a fresh interpreter whose globals are `vector`."""

    def __init__(self, vector):
        self.vector = dict(DEFAULT_VECTOR)
        self.vector.update(vector)

    def __enter__(self):
        import bempp_cl.api
        import exafmm

        if _PRISTINE is None:
            raise RuntimeError("capture_pristine() was not called")
        self.snap = GlobalState()
        c = exafmm.CONTROL
        self.peer = (dict(c.fail_on), dict(c.count), c.permute_seed, c.chunk, c.faults_fired)
        c.fail_on = {}
        c.permute_seed = None
        c.chunk = 256
        install_module_state(_PRISTINE)
        write_params(bempp_cl.api.GLOBAL_PARAMETERS, self.vector)
        ID_COUNTER.epoch += 1
        ID_COUNTER.prefix = "fresh%d.%d" % (ID_COUNTER.epoch, ID_COUNTER.n)
        self.cwd = os.getcwd()
        sub = os.path.join(scratch_dir(), "fresh")
        shutil.rmtree(sub, ignore_errors=True)
        os.makedirs(sub, exist_ok=True)
        os.chdir(sub)
        return self

    def __exit__(self, *exc):
        import exafmm

        self.snap.restore()
        os.chdir(self.cwd)
        c = exafmm.CONTROL
        c.fail_on, c.count, c.permute_seed, c.chunk, c.faults_fired = (
            self.peer[0],
            self.peer[1],
            self.peer[2],
            self.peer[3],
            self.peer[4],
        )
        return False
