"""Process bootstrap shared by all checks: seams that need no hook in /repo.

* re-exec once with PYTHONHASHSEED=0 (set iteration order is otherwise per process)
* NUMBA_THREADING_LAYER=workqueue (fork-safe), thread count chosen by the check
* sys.path: optional scratch copy of the repository (VERIF_REPO) first, then /verif/fakes
  so that `import exafmm` resolves to the simulated peer
* ids: bempp_cl.api.utils.helpers.create_unique_id replaced by a per-run counter
* cwd: private scratch directory (FMM scratch files go to ./.exafmm)
"""

import atexit
import os
import shutil
import sys

# one BLAS/OpenMP thread per process: the harness parallelises over processes
for _v in ("OPENBLAS_NUM_THREADS", "OMP_NUM_THREADS", "MKL_NUM_THREADS"):
    os.environ.setdefault(_v, "1")

VERIF_ROOT = os.path.dirname(os.path.dirname(os.path.abspath(__file__)))


def install_arena_allocator():
    """Optional performance aid for the harness processes (see native/arena.c)."""
    if os.environ.get("VERIF_NO_ARENA"):
        return False
    so = os.path.join(VERIF_ROOT, "native", "_arena.so")
    if not os.path.exists(so):
        return False
    try:
        import ctypes

        lib = ctypes.PyDLL(so)
        lib.verif_install_arena()
        return True
    except Exception:  # noqa: BLE001
        return False


ARENA_INSTALLED = install_arena_allocator()
FAKES = os.path.join(VERIF_ROOT, "fakes")
# the self-tests redirect these so that runs against mutated scratch copies never touch the real files
REPLAYS = os.environ.get("VERIF_REPLAY_DIR") or os.path.join(VERIF_ROOT, "replays")
EVIDENCE = os.environ.get("VERIF_EVIDENCE_DIR") or os.path.join(VERIF_ROOT, "evidence")

_SCRATCH = None
_SCRATCH_PID = None


def reexec_with_hashseed(hashseed="0"):
    """Re-exec the interpreter once so that PYTHONHASHSEED is pinned."""
    want = os.environ.get("VERIF_HASHSEED", hashseed)
    if os.environ.get("PYTHONHASHSEED") != want:
        env = dict(os.environ)
        env["PYTHONHASHSEED"] = want
        env.setdefault("NUMBA_THREADING_LAYER", "workqueue")
        os.execve(sys.executable, [sys.executable] + sys.argv, env)


def setup_paths():
    repo = os.environ.get("VERIF_REPO")
    if repo:
        repo = os.path.abspath(repo)
        if repo in sys.path:
            sys.path.remove(repo)
        sys.path.insert(0, repo)
    if FAKES not in sys.path:
        sys.path.insert(1 if repo else 0, FAKES)
    if VERIF_ROOT not in sys.path:
        sys.path.append(VERIF_ROOT)


def repo_root():
    """Directory bempp_cl is imported from (for the evidence file)."""
    import bempp_cl

    return os.path.dirname(os.path.dirname(os.path.abspath(bempp_cl.__file__)))


def scratch_dir():
    """Create (once per process) and chdir into a private scratch directory."""
    global _SCRATCH, _SCRATCH_PID
    if _SCRATCH is None or _SCRATCH_PID != os.getpid() or not os.path.isdir(_SCRATCH):
        _SCRATCH_PID = os.getpid()
        base = os.path.join(VERIF_ROOT, ".scratch")
        os.makedirs(base, exist_ok=True)
        _SCRATCH = os.path.join(base, "p%d" % os.getpid())
        os.makedirs(_SCRATCH, exist_ok=True)
        pid = os.getpid()

        def _cleanup(path=_SCRATCH, pid=pid):
            if os.getpid() == pid:
                shutil.rmtree(path, ignore_errors=True)

        atexit.register(_cleanup)
    os.chdir(_SCRATCH)
    return _SCRATCH


def clean_scratch():
    """Empty the private scratch directory (a fresh process starts in a fresh directory)."""
    d = scratch_dir()
    for name in os.listdir(d):
        p = os.path.join(d, name)
        if os.path.isdir(p) and not os.path.islink(p):
            shutil.rmtree(p, ignore_errors=True)
        else:
            try:
                os.unlink(p)
            except OSError:
                pass
    return d


def bootstrap(threads=None):
    """Call before importing bempp_cl."""
    os.environ.setdefault("NUMBA_THREADING_LAYER", "workqueue")
    if threads is not None:
        os.environ["NUMBA_NUM_THREADS"] = str(threads)
    setup_paths()
    import warnings

    warnings.filterwarnings("ignore")
    # bempp prints "Could not find Gmsh" on import; keep stdout clean for the harness
    import io
    import contextlib

    buf = io.StringIO()
    with contextlib.redirect_stdout(buf):
        import bempp_cl.api  # noqa: F401
    install_id_counter()
    scratch_dir()
    os.makedirs(REPLAYS, exist_ok=True)
    os.makedirs(EVIDENCE, exist_ok=True)


class IdCounter(object):
    """Deterministic replacement for uuid4-based ids."""

    def __init__(self):
        self.n = 0
        self.prefix = "id"

    def reset(self, prefix="id"):
        self.n = 0
        self.prefix = prefix

    def __call__(self):
        self.n += 1
        return "%s-%06d" % (self.prefix, self.n)


ID_COUNTER = IdCounter()


def install_id_counter():
    import bempp_cl.api.utils.helpers as helpers

    helpers.create_unique_id = ID_COUNTER


# --------------------------------------------------------------------------------------
# process-global state of bempp-cl: snapshot / restore / fresh emulation
# --------------------------------------------------------------------------------------

PARAM_FIELDS = (
    ("quadrature", "regular"),
    ("quadrature", "singular"),
    ("fmm", "expansion_order"),
    ("fmm", "depth"),
    ("fmm", "ncrit"),
    ("fmm", "near_field_representation"),
    ("fmm", "debug"),
    ("fmm", "dense_evaluation"),
    ("assembly", "always_promote_to_double"),
    ("assembly", "discretization_type"),
)

DEFAULT_VECTOR = {
    "quadrature.regular": 4,
    "quadrature.singular": 4,
    "fmm.expansion_order": 5,
    "fmm.depth": 4,
    "fmm.ncrit": 400,
    "fmm.near_field_representation": "evaluate",
    "fmm.debug": False,
    "fmm.dense_evaluation": False,
    "assembly.always_promote_to_double": False,
    "assembly.discretization_type": "galerkin",
}


def read_params(obj):
    """Value vector of a bempp parameter object."""
    return {"%s.%s" % (a, b): getattr(getattr(obj, a), b) for a, b in PARAM_FIELDS}


def write_params(obj, vector):
    for key, val in vector.items():
        a, b = key.split(".")
        setattr(getattr(obj, a), b, val)


def new_params(vector):
    from bempp_cl.api.utils.parameters import DefaultParameters

    p = DefaultParameters()
    full = dict(DEFAULT_VECTOR)
    full.update(vector)
    write_params(p, full)
    return p


class GlobalState(object):
    """Snapshot of everything process-global the library consults."""

    def __init__(self):
        import bempp_cl.api
        import bempp_cl.api.fmm.fmm_assembler as fa
        import bempp_cl.api.fmm.exafmm as ex

        self.params = read_params(bempp_cl.api.GLOBAL_PARAMETERS)
        self.fmm_cache = fa._FMM_CACHE
        self.fmm_pot_cache = fa._FMM_POTENTIAL_CACHE
        self.tmp_dir = ex.FMM_TMP_DIR
        self.precision = bempp_cl.api.DEFAULT_PRECISION
        self.device = bempp_cl.api.DEFAULT_DEVICE_INTERFACE
        self.idn = ID_COUNTER.n
        self.idp = ID_COUNTER.prefix

    def restore(self):
        import bempp_cl.api
        import bempp_cl.api.fmm.fmm_assembler as fa
        import bempp_cl.api.fmm.exafmm as ex

        write_params(bempp_cl.api.GLOBAL_PARAMETERS, self.params)
        fa._FMM_CACHE = self.fmm_cache
        fa._FMM_POTENTIAL_CACHE = self.fmm_pot_cache
        ex.FMM_TMP_DIR = self.tmp_dir
        bempp_cl.api.DEFAULT_PRECISION = self.precision
        bempp_cl.api.DEFAULT_DEVICE_INTERFACE = self.device
        ID_COUNTER.n = self.idn
        ID_COUNTER.prefix = self.idp


def reset_process_state(prefix="id"):
    """Put the library's process-global state into what a fresh interpreter has."""
    import bempp_cl.api
    import bempp_cl.api.fmm.fmm_assembler as fa
    import bempp_cl.api.fmm.exafmm as ex

    write_params(bempp_cl.api.GLOBAL_PARAMETERS, DEFAULT_VECTOR)
    fa._FMM_CACHE = {}
    fa._FMM_POTENTIAL_CACHE = {}
    ex.FMM_TMP_DIR = None
    bempp_cl.api.DEFAULT_PRECISION = "double"
    bempp_cl.api.DEFAULT_DEVICE_INTERFACE = "numba"
    ID_COUNTER.reset(prefix)
    clean_scratch()
    try:
        import exafmm

        exafmm.CONTROL.reset()
    except ImportError:
        pass


class fresh_process(object):
    """Context manager: emulate a fresh interpreter whose globals are `vector`."""

    def __init__(self, vector):
        self.vector = dict(DEFAULT_VECTOR)
        self.vector.update(vector)

    def __enter__(self):
        import bempp_cl.api
        import bempp_cl.api.fmm.fmm_assembler as fa
        import bempp_cl.api.fmm.exafmm as ex
        import exafmm

        self.snap = GlobalState()
        c = exafmm.CONTROL
        self.peer = (dict(c.fail_on), dict(c.count), c.permute_seed, c.chunk, c.faults_fired)
        c.fail_on = {}
        c.permute_seed = None
        c.chunk = 256
        write_params(bempp_cl.api.GLOBAL_PARAMETERS, self.vector)
        fa._FMM_CACHE = {}
        fa._FMM_POTENTIAL_CACHE = {}
        ex.FMM_TMP_DIR = None
        ID_COUNTER.prefix = "fresh%d" % ID_COUNTER.n
        self.cwd = os.getcwd()
        sub = os.path.join(scratch_dir(), "fresh")
        shutil.rmtree(sub, ignore_errors=True)
        os.makedirs(sub, exist_ok=True)
        os.chdir(sub)
        return self

    def __exit__(self, *exc):
        import exafmm

        self.snap.restore()
        os.chdir(self.cwd)
        c = exafmm.CONTROL
        c.fail_on, c.count, c.permute_seed, c.chunk, c.faults_fired = (
            self.peer[0],
            self.peer[1],
            self.peer[2],
            self.peer[3],
            self.peer[4],
        )
        return False
