"""Closure conversion of Numba `prange` kernels so that a simulator owns the parallel runtime.

For a `@numba.jit(parallel=True)` dispatcher the original Python source (`py_func`) is
rewritten with `ast`:

    for i in numba.prange(n):           def __body_k(i):
        BODY                    ==>         BODY            # top-level `continue` -> `return`
                                         __sim.parallel_for(k, n, __body_k, {names...}, <rebinder>)

Numba's data-sharing rule for prange is reproduced exactly: names first assigned in BODY are
private to an iteration (locals of the closure), everything defined before the loop is shared
by reference.  Two static checks refuse a kernel rather than misrepresent it (TransformError):
a name assigned in BODY and read after the loop, and a name read in BODY before its first
assignment there while also assigned in BODY (loop-carried dependence).  An augmented
assignment to a bare outer scalar name would be a Numba reduction; it is reported as such.

Inside BODY (and inside callees that receive a shared array):
    X[idx] op= v   ==>  __sim.aug(X, idx, "op", v)       (load and store are separate steps)
    f(..., X, ...) ==>  __sim.call(f, ..., X, ...)       (callee interpreted if X is tracked)
"""

import ast
import inspect
import textwrap


class TransformError(Exception):
    pass


_AUG = {
    ast.Add: "add",
    ast.Sub: "sub",
    ast.Mult: "mul",
    ast.Div: "truediv",
    ast.FloorDiv: "floordiv",
    ast.Mod: "mod",
    ast.Pow: "pow",
    ast.BitOr: "or",
    ast.BitAnd: "and",
    ast.BitXor: "xor",
    ast.LShift: "lshift",
    ast.RShift: "rshift",
    ast.MatMult: "matmul",
}


def _is_prange_call(node):
    if not isinstance(node, ast.Call):
        return False
    f = node.func
    if isinstance(f, ast.Attribute) and f.attr == "prange":
        return True
    if isinstance(f, ast.Name) and f.id == "prange":
        return True
    return False


def _stored_names(nodes):
    """Names bound (Name store, for targets, with/except aliases) anywhere in the statements."""
    out = set()
    for n in nodes:
        for sub in ast.walk(n):
            if isinstance(sub, ast.Name) and isinstance(sub.ctx, (ast.Store, ast.Del)):
                out.add(sub.id)
            elif isinstance(sub, (ast.FunctionDef, ast.ClassDef)):
                out.add(sub.name)
    return out


def _stored_outside_prange(nodes):
    """Names bound in the function but not only inside a prange loop (those become closure locals)."""
    out = set()

    def walk(n):
        if isinstance(n, ast.For) and _is_prange_call(n.iter):
            return
        if isinstance(n, ast.Name) and isinstance(n.ctx, (ast.Store, ast.Del)):
            out.add(n.id)
        for c in ast.iter_child_nodes(n):
            walk(c)

    for n in nodes:
        walk(n)
    return out


def _loaded_names(nodes):
    out = set()
    for n in nodes:
        for sub in ast.walk(n):
            if isinstance(sub, ast.Name) and isinstance(sub.ctx, ast.Load):
                out.add(sub.id)
    return out


class _FirstUse(ast.NodeVisitor):
    """Conservative straight-line scan: names loaded before any store in BODY."""

    def __init__(self):
        self.stored = set()
        self.read_before_store = set()

    def visit_Name(self, node):
        if isinstance(node.ctx, ast.Load):
            if node.id not in self.stored:
                self.read_before_store.add(node.id)
        else:
            self.stored.add(node.id)

    def visit_Assign(self, node):
        self.visit(node.value)
        for t in node.targets:
            self.visit(t)

    def visit_AugAssign(self, node):
        # target is read, then written
        if isinstance(node.target, ast.Name):
            if node.target.id not in self.stored:
                self.read_before_store.add(node.target.id)
            self.visit(node.value)
            self.stored.add(node.target.id)
        else:
            self.generic_visit(node)

    def visit_For(self, node):
        self.visit(node.iter)
        self.visit(node.target)
        for s in node.body:
            self.visit(s)
        for s in node.orelse:
            self.visit(s)


class _BodyRewriter(ast.NodeTransformer):
    """Rewrites inside a prange body or an interpreted callee."""

    def __init__(self, in_prange_body, reductions=(), region_index=None):
        self.loop_depth = 0
        self.in_prange_body = in_prange_body
        self.reductions = set(reductions)
        self.region_index = region_index

    def visit_Name(self, node):
        if isinstance(node.ctx, ast.Load) and node.id in self.reductions:
            raise TransformError("reduction variable %s is read inside the prange body" % node.id)
        return node

    def visit_For(self, node):
        self.loop_depth += 1
        self.generic_visit(node)
        self.loop_depth -= 1
        return node

    def visit_While(self, node):
        self.loop_depth += 1
        self.generic_visit(node)
        self.loop_depth -= 1
        return node

    def visit_Continue(self, node):
        if self.in_prange_body and self.loop_depth == 0:
            return ast.copy_location(ast.Return(value=None), node)
        return node

    def visit_Break(self, node):
        if self.in_prange_body and self.loop_depth == 0:
            raise TransformError("break at the top level of a prange body")
        return node

    def visit_Return(self, node):
        if self.in_prange_body:
            raise TransformError("return inside a prange body")
        return self.generic_visit(node)

    def visit_AugAssign(self, node):
        self.generic_visit(node)
        if isinstance(node.target, ast.Name) and node.target.id in self.reductions:
            opname = _AUG.get(type(node.op))
            if opname not in ("add", "sub", "mul"):
                raise TransformError("unsupported reduction operator on %s" % node.target.id)
            call = ast.Call(
                func=ast.Attribute(value=ast.Name(id="__sim", ctx=ast.Load()), attr="reduce", ctx=ast.Load()),
                args=[ast.Constant(self.region_index), ast.Constant(node.target.id), ast.Constant(opname), node.value],
                keywords=[],
            )
            return ast.copy_location(ast.Expr(value=call), node)
        if isinstance(node.target, ast.Subscript) and isinstance(node.target.value, ast.Name):
            opname = _AUG.get(type(node.op))
            if opname is None:
                raise TransformError("unsupported augmented operator")
            call = ast.Call(
                func=ast.Attribute(value=ast.Name(id="__sim", ctx=ast.Load()), attr="aug", ctx=ast.Load()),
                args=[
                    ast.Name(id=node.target.value.id, ctx=ast.Load()),
                    _slice_expr(node.target.slice),
                    ast.Constant(value=opname),
                    node.value,
                ],
                keywords=[],
            )
            return ast.copy_location(ast.Expr(value=call), node)
        return node

    def visit_Call(self, node):
        self.generic_visit(node)
        if _is_prange_call(node):
            return node
        if isinstance(node.func, ast.Attribute) and isinstance(node.func.value, ast.Name) and node.func.value.id == "__sim":
            return node
        has_name_arg = any(isinstance(a, ast.Name) for a in node.args) or any(
            isinstance(k.value, ast.Name) for k in node.keywords
        )
        if not has_name_arg or any(k.arg is None for k in node.keywords) or any(isinstance(a, ast.Starred) for a in node.args):
            return node
        # only plain function objects are routed (method calls on arrays/jitclasses stay direct)
        if not isinstance(node.func, (ast.Name,)):
            return node
        new = ast.Call(
            func=ast.Attribute(value=ast.Name(id="__sim", ctx=ast.Load()), attr="call", ctx=ast.Load()),
            args=[node.func] + node.args,
            keywords=node.keywords,
        )
        return ast.copy_location(new, node)


def _slice_expr(sl):
    """Turn a subscript slice node into an expression that evaluates to the index object."""
    if isinstance(sl, ast.Slice):
        return ast.Call(
            func=ast.Name(id="slice", ctx=ast.Load()),
            args=[sl.lower or ast.Constant(None), sl.upper or ast.Constant(None), sl.step or ast.Constant(None)],
            keywords=[],
        )
    if isinstance(sl, ast.Tuple):
        return ast.Tuple(elts=[_slice_expr(e) for e in sl.elts], ctx=ast.Load())
    return sl


class RegionInfo(object):
    def __init__(self, index, lineno, loop_var, subscript_stored, call_args, private, reductions):
        self.index = index
        self.lineno = lineno
        self.loop_var = loop_var
        self.subscript_stored = sorted(subscript_stored)
        self.call_args = sorted(call_args)
        self.private = sorted(private)
        self.reductions = sorted(reductions)


class _KernelTransformer(ast.NodeTransformer):
    def __init__(self, func_name):
        self.func_name = func_name
        self.regions = []
        self.depth = 0

    def transform_function(self, fn):
        fn.decorator_list = []
        fn.name = "__simfn_" + self.func_name
        a = fn.args
        params = [x.arg for x in a.posonlyargs + a.args + a.kwonlyargs]
        if a.vararg:
            params.append(a.vararg.arg)
        if a.kwarg:
            params.append(a.kwarg.arg)
        self.fn_locals = set(params) | _stored_outside_prange(fn.body)
        fn.body = self._transform_block(fn.body, following=[])
        return fn

    def _transform_block(self, stmts, following):
        out = []
        for pos, st in enumerate(stmts):
            rest = stmts[pos + 1 :] + following
            if isinstance(st, ast.For) and _is_prange_call(st.iter):
                out.extend(self._convert(st, rest))
            elif isinstance(st, (ast.If,)):
                st.body = self._transform_block(st.body, rest)
                st.orelse = self._transform_block(st.orelse, rest)
                out.append(st)
            elif isinstance(st, (ast.With,)):
                st.body = self._transform_block(st.body, rest)
                out.append(st)
            elif isinstance(st, (ast.For, ast.While)):
                # a prange nested in a serial loop is still a parallel region each time round
                st.body = self._transform_block(st.body, rest + [st])
                out.append(st)
            else:
                out.append(st)
        return out

    def _convert(self, loop, rest):
        if not isinstance(loop.target, ast.Name):
            raise TransformError("prange loop target must be a simple name")
        if loop.orelse:
            raise TransformError("prange loop with else clause")
        if not (1 <= len(loop.iter.args) <= 3) or loop.iter.keywords:
            raise TransformError("unsupported prange call")
        k = len(self.regions)
        body = loop.body
        var = loop.target.id
        stored = _stored_names(body)
        # names read after the loop before being assigned again there (straight-line scan)
        after = _FirstUse()
        for st_after in rest:
            after.visit(st_after)
        loaded_after = after.read_before_store
        fu = _FirstUse()
        fu.stored.add(var)
        for s in body:
            fu.visit(s)
        private = set(stored)
        reductions_pre = set()
        for s_ in body:
            for sub in ast.walk(s_):
                if isinstance(sub, ast.AugAssign) and isinstance(sub.target, ast.Name) and sub.target.id in fu.read_before_store:
                    reductions_pre.add(sub.target.id)
        reductions_pre.discard(var)
        # static refusal 1: private name read after the loop
        leak = ((private - reductions_pre) & loaded_after) - {var}
        # a name re-assigned after the loop before being read is fine, but we stay conservative only
        # for names that are *not* also assigned before the loop (those are simply shadowed: Numba
        # would reject or privatise them as well)
        if leak:
            raise TransformError("names assigned in prange body and read after the loop: %s" % sorted(leak))
        # reductions: bare-name augmented assignment of an outer name
        reductions = set()
        for s in body:
            for sub in ast.walk(s):
                if isinstance(sub, ast.AugAssign) and isinstance(sub.target, ast.Name):
                    if sub.target.id in fu.read_before_store and sub.target.id != var:
                        reductions.add(sub.target.id)
        carried = (fu.read_before_store & private) - reductions
        if carried:
            raise TransformError("loop-carried names in prange body: %s" % sorted(carried))
        # a reduction variable must be a local of the enclosing function that is only updated by `x op= v`
        for name in sorted(reductions):
            if name not in self.fn_locals:
                raise TransformError("reduction over a non-local name %s" % name)
            for st_ in body:
                for sub in ast.walk(st_):
                    if isinstance(sub, ast.Name) and sub.id == name and isinstance(sub.ctx, ast.Store):
                        par = [a for a in ast.walk(st_) if isinstance(a, ast.AugAssign) and a.target is sub]
                        if not par:
                            raise TransformError("reduction variable %s is also assigned plainly in the body" % name)
        private -= reductions
        # shared arrays written through a subscript
        sub_stored = set()
        call_args = set()
        for s in body:
            for sub in ast.walk(s):
                if isinstance(sub, ast.Subscript) and isinstance(sub.ctx, ast.Store) and isinstance(sub.value, ast.Name):
                    if sub.value.id not in private:
                        sub_stored.add(sub.value.id)
                if isinstance(sub, ast.AugAssign) and isinstance(sub.target, ast.Subscript) and isinstance(sub.target.value, ast.Name):
                    if sub.target.value.id not in private:
                        sub_stored.add(sub.target.value.id)
                if isinstance(sub, ast.Call) and not _is_prange_call(sub):
                    for a in sub.args:
                        if isinstance(a, ast.Name) and a.id not in private:
                            call_args.add(a.id)
        # every outer array the body can reach is watched for modification (a write through a view such as
        # `row = work[i]; row[j] = v` has no subscript store on `work` itself)
        for s_ in body:
            for sub in ast.walk(s_):
                if isinstance(sub, ast.Name) and isinstance(sub.ctx, ast.Load) and sub.id not in private and sub.id != var:
                    call_args.add(sub.id)
        sub_stored &= self.fn_locals
        call_args &= self.fn_locals
        call_args -= sub_stored
        self.regions.append(RegionInfo(k, loop.lineno, var, sub_stored, call_args, private - {var}, reductions))
        rw = _BodyRewriter(in_prange_body=True, reductions=reductions, region_index=k)
        new_body = [rw.visit(s) for s in body]
        fname = "__body_%d" % k
        fdef = ast.FunctionDef(
            name=fname,
            args=ast.arguments(posonlyargs=[], args=[ast.arg(arg=var)], kwonlyargs=[], kw_defaults=[], defaults=[]),
            body=new_body or [ast.Pass()],
            decorator_list=[],
            returns=None,
            type_params=[],
        )
        shared = sorted(sub_stored | call_args)
        # names that may be undefined at this point (conditionally defined) are skipped at run time
        getters = ast.Dict(
            keys=[ast.Constant(n) for n in shared],
            values=[
                ast.Lambda(
                    args=ast.arguments(posonlyargs=[], args=[], kwonlyargs=[], kw_defaults=[], defaults=[]),
                    body=ast.Name(id=n, ctx=ast.Load()),
                )
                for n in shared
            ],
        )
        # rebinding of shared names to tracked proxies happens through a generated setter closure
        setter_body = [ast.Nonlocal(names=shared)] if shared else []
        # the enclosing function's locals cannot be `nonlocal` from a nested def unless they are assigned in
        # the enclosing function: parameters and locals are, so this is valid.
        for n in shared:
            setter_body.append(
                ast.If(
                    test=ast.Compare(left=ast.Constant(n), ops=[ast.In()], comparators=[ast.Name(id="__m", ctx=ast.Load())]),
                    body=[ast.Assign(targets=[ast.Name(id=n, ctx=ast.Store())], value=ast.Subscript(value=ast.Name(id="__m", ctx=ast.Load()), slice=ast.Constant(n), ctx=ast.Load()))],
                    orelse=[],
                )
            )
        if not setter_body:
            setter_body = [ast.Pass()]
        setter = ast.FunctionDef(
            name="__rebind_%d" % k,
            args=ast.arguments(posonlyargs=[], args=[ast.arg(arg="__m")], kwonlyargs=[], kw_defaults=[], defaults=[]),
            body=setter_body,
            decorator_list=[],
            returns=None,
            type_params=[],
        )
        call = ast.Expr(
            value=ast.Call(
                func=ast.Attribute(value=ast.Name(id="__sim", ctx=ast.Load()), attr="parallel_for", ctx=ast.Load()),
                args=[
                    ast.Constant(k),
                    ast.Tuple(elts=list(loop.iter.args), ctx=ast.Load()),
                    ast.Name(id=fname, ctx=ast.Load()),
                    getters,
                    ast.Name(id="__rebind_%d" % k, ctx=ast.Load()),
                    ast.Tuple(elts=[ast.Constant(x) for x in sorted(sub_stored)], ctx=ast.Load()),
                ],
                keywords=[],
            )
        )
        out_nodes = [fdef, setter, call]
        # after the region: fold the per-worker partial results into the reduction variables
        for name in sorted(reductions):
            out_nodes.append(
                ast.Assign(
                    targets=[ast.Name(id=name, ctx=ast.Store())],
                    value=ast.Call(
                        func=ast.Attribute(value=ast.Name(id="__sim", ctx=ast.Load()), attr="reduce_result", ctx=ast.Load()),
                        args=[ast.Constant(k), ast.Constant(name), ast.Name(id=name, ctx=ast.Load())],
                        keywords=[],
                    ),
                )
            )
        return out_nodes


THREAD_QUERIES = ("get_num_threads", "get_thread_id", "NUMBA_NUM_THREADS", "NUMBA_DEFAULT_NUM_THREADS")


class NumbaShim(object):
    """Stands in for the `numba` module inside interpreted kernels: the parallel runtime's answers to
    "how many threads are there / which one am I" come from the simulator, everything else is numba's."""

    def __init__(self, real, sim_getter):
        object.__setattr__(self, "_real", real)
        object.__setattr__(self, "_sim_getter", sim_getter)

    def get_num_threads(self):
        sim = self._sim_getter()
        n = getattr(sim, "declared_threads", None) if sim is not None else None
        return self._real.get_num_threads() if n is None else n

    def get_thread_id(self):
        sim = self._sim_getter()
        run = getattr(sim, "run_ctx", None) if sim is not None else None
        return 0 if run is None or run.current is None else int(run.current)

    @property
    def config(self):
        return _ConfigShim(self._real.config, self)

    def __getattr__(self, name):
        return getattr(self._real, name)


class _ConfigShim(object):
    def __init__(self, real, shim):
        object.__setattr__(self, "_real", real)
        object.__setattr__(self, "_shim", shim)

    @property
    def NUMBA_NUM_THREADS(self):
        return self._shim.get_num_threads()

    @property
    def NUMBA_DEFAULT_NUM_THREADS(self):
        return self._shim.get_num_threads()

    def __getattr__(self, name):
        return getattr(self._real, name)


def uses_thread_queries(py_func):
    src = textwrap.dedent(inspect.getsource(py_func))
    tree = ast.parse(src)
    for node in ast.walk(tree):
        if isinstance(node, ast.Attribute) and node.attr in THREAD_QUERIES:
            return True
        if isinstance(node, ast.Name) and node.id in THREAD_QUERIES:
            return True
    return False


def install_numba_shim(ns, module_dict):
    """Bind every global name of the module that is the numba package to a shim in the kernel's namespace."""
    import numba as _real_numba

    for name, val in list(module_dict.items()):
        if val is _real_numba:
            ns[name] = NumbaShim(_real_numba, lambda ns=ns: ns.get("__sim"))
    for q in ("get_num_threads", "get_thread_id"):
        if module_dict.get(q) is getattr(_real_numba, q, object()):
            ns[q] = getattr(NumbaShim(_real_numba, lambda ns=ns: ns.get("__sim")), q)


def transform_kernel(py_func, module_dict):
    """Return (python function, [RegionInfo]) for a prange kernel's original source."""
    src = textwrap.dedent(inspect.getsource(py_func))
    tree = ast.parse(src)
    fn = tree.body[0]
    if not isinstance(fn, ast.FunctionDef):
        raise TransformError("expected a function definition")
    kt = _KernelTransformer(py_func.__name__)
    kt.transform_function(fn)
    if not kt.regions:
        raise TransformError("no prange region found in %s" % py_func.__name__)
    ast.fix_missing_locations(tree)
    code = compile(tree, "<sim:%s>" % py_func.__name__, "exec")
    ns = _Fallback(module_dict)
    install_numba_shim(ns, module_dict)
    exec(code, ns)
    return ns["__simfn_" + py_func.__name__], kt.regions, ns


def transform_callee(py_func, module_dict):
    """Interpretable version of a callee that receives a tracked array (no prange handling)."""
    src = textwrap.dedent(inspect.getsource(py_func))
    tree = ast.parse(src)
    fn = tree.body[0]
    fn.decorator_list = []
    fn.name = "__simcallee_" + py_func.__name__
    rw = _BodyRewriter(in_prange_body=False)
    fn.body = [rw.visit(s) for s in fn.body]
    ast.fix_missing_locations(tree)
    code = compile(tree, "<simcallee:%s>" % py_func.__name__, "exec")
    ns = _Fallback(module_dict)
    exec(code, ns)
    return ns[fn.name], ns


class _Fallback(dict):
    """Function globals that fall back to the live dict of the kernel's module."""

    def __init__(self, module_dict):
        super().__init__()
        self._module_dict = module_dict
        self["__builtins__"] = module_dict.get("__builtins__", __builtins__)

    def __missing__(self, key):
        return self._module_dict[key]


def discover_parallel_kernels():
    """All parallel=True dispatchers with a prange loop in any loaded bempp_cl module."""
    import importlib
    import pkgutil
    import sys

    from numba.core.registry import CPUDispatcher

    import bempp_cl

    # kernels live in modules that are only imported on first use: import every submodule now
    # (modules that need an absent optional dependency, e.g. pyopencl or dolfin, are skipped)
    for m in pkgutil.walk_packages(bempp_cl.__path__, "bempp_cl."):
        if m.name in sys.modules:
            continue
        if any(part in m.name for part in ("opencl", "fenics", "external", "remote_operator", "pool")):
            continue
        try:
            importlib.import_module(m.name)
        except Exception:  # noqa: BLE001
            continue

    found = []
    for mname, mod in sorted(sys.modules.items()):
        if not (mname == "bempp_cl" or mname.startswith("bempp_cl.")) or mod is None:
            continue
        for name, obj in sorted(vars(mod).items()):
            if not isinstance(obj, CPUDispatcher):
                continue
            if getattr(obj.py_func, "__module__", None) != mname:
                continue
            if not obj.targetoptions.get("parallel"):
                continue
            try:
                src = inspect.getsource(obj.py_func)
            except (OSError, TypeError):
                continue
            if "prange" not in src:
                continue
            found.append((mname, name, obj))
    return found
