"""One integer decides everything: derived PRNG streams.

stream(seed, check, run, name) is a `random.Random` seeded from
sha256("<seed>:<check>:<run>:<name>").  Adding a draw to one stream never shifts another.
"""

import hashlib
import os
import random


def base_seed():
    try:
        return int(os.environ.get("VERIF_SEED", "0"))
    except ValueError:
        return 0


def derive(*parts):
    h = hashlib.sha256(":".join(str(p) for p in parts).encode()).digest()
    return int.from_bytes(h[:8], "big")


def stream(*parts):
    return random.Random(derive(*parts))


def digest(obj):
    """sha256 of the canonical JSON of obj (first 16 hex chars)."""
    import json

    return hashlib.sha256(json.dumps(obj, sort_keys=True, separators=(",", ":"), default=_default).encode()).hexdigest()[
        :16
    ]


def _default(o):
    import numpy as np

    if isinstance(o, np.ndarray):
        return {"__nd__": hashlib.sha256(np.ascontiguousarray(o).tobytes()).hexdigest()[:16], "shape": list(o.shape)}
    if isinstance(o, (np.integer,)):
        return int(o)
    if isinstance(o, (np.floating,)):
        return float(o)
    if isinstance(o, (np.bool_,)):
        return bool(o)
    if isinstance(o, complex):
        return [o.real, o.imag]
    if isinstance(o, (set, frozenset)):
        return sorted(o)
    if isinstance(o, tuple):
        return list(o)
    return repr(o)


def array_digest(a):
    import numpy as np

    a = np.ascontiguousarray(a)
    return hashlib.sha256(str(a.dtype).encode() + str(a.shape).encode() + a.tobytes()).hexdigest()[:16]
