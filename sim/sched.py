"""Simulated parallel runtime for prange regions: workers, schedules, tracked arrays.

`Sim.parallel_for` replaces the Numba parfor runtime.  Workers are real threads, but exactly
one runs at any time: each parks on its own Event and is released by the scheduler (baton
passing), so the interleaving is the sequence of scheduler decisions and nothing else.
Pre-emption points are the loads and stores of tracked (shared, written) arrays and the
boundaries between iterations.
"""

import hashlib
import operator
import random
import threading

import numpy as np

_OPS = {
    "add": operator.add,
    "sub": operator.sub,
    "mul": operator.mul,
    "truediv": operator.truediv,
    "floordiv": operator.floordiv,
    "mod": operator.mod,
    "pow": operator.pow,
    "or": operator.or_,
    "and": operator.and_,
    "xor": operator.xor,
    "lshift": operator.lshift,
    "rshift": operator.rshift,
    "matmul": operator.matmul,
}


class SimError(Exception):
    """The simulator cannot represent what the kernel does (harness error, never a violation)."""


class Tracked(object):
    """Proxy for a shared array written inside a prange body, or for a view of one.

    `arr` is the numpy array (or view) and `cellmap` an integer array of the same shape holding, for every
    element, its flat cell number in the base array: accesses through views (`row = work[i]; row[j] = v`)
    are attributed to the cells of the base array.  Indexing that yields a scalar is a load; indexing that
    yields an array yields another proxy (creating a view is not an access).  Using a proxy as a whole-array
    operand (numpy functions, arithmetic) loads all its cells and works on a copy.
    """

    __slots__ = ("name", "arr", "sim", "cellmap", "__weakref__")

    def __init__(self, name, arr, sim, cellmap=None):
        self.name = name
        self.arr = arr
        self.sim = sim
        self.cellmap = cellmap

    def _map(self):
        if self.cellmap is None:
            self.cellmap = np.arange(self.arr.size).reshape(self.arr.shape)
        return self.cellmap

    # array-like surface used by kernel bodies
    @property
    def dtype(self):
        return self.arr.dtype

    @property
    def shape(self):
        return self.arr.shape

    @property
    def ndim(self):
        return self.arr.ndim

    @property
    def size(self):
        return self.arr.size

    @property
    def T(self):
        return Tracked(self.name, self.arr.T, self.sim, self._map().T)

    def __len__(self):
        return len(self.arr)

    def cells(self, idx):
        """Base-array cell numbers addressed by idx."""
        c = self._map()[idx]
        if isinstance(c, np.ndarray):
            return tuple(int(x) for x in c.ravel())
        return (int(c),)

    def _all_cells(self):
        return tuple(int(x) for x in self._map().ravel())

    def __getitem__(self, idx):
        if isinstance(idx, Tracked):
            idx = np.asarray(idx)
        v = self.arr[idx]
        if isinstance(v, np.ndarray):
            sub = self._map()[idx]
            if v.base is None and v.size and not np.shares_memory(v, self.arr):
                # fancy indexing copies: that is a load of the selected cells
                self.sim.access(self, tuple(int(x) for x in np.asarray(sub).ravel()), "load")
                v = v.copy()
                v.flags.writeable = False
                return v
            return Tracked(self.name, v, self.sim, sub)
        self.sim.access(self, self.cells(idx), "load")
        return self.arr[idx]

    def __setitem__(self, idx, value):
        if isinstance(idx, Tracked):
            idx = np.asarray(idx)
        cells = self.cells(idx)
        self.sim.access(self, cells, "store")
        if isinstance(value, Tracked):
            value = np.asarray(value)
        self.arr[idx] = value
        self.sim.access(self, cells, "store_done")

    def __array__(self, dtype=None, copy=None):
        self.sim.access(self, self._all_cells(), "load")
        out = np.array(self.arr, dtype=dtype, copy=True)
        return out

    def copy(self):
        return np.asarray(self)

    def astype(self, dtype, **kw):
        return np.asarray(self).astype(dtype, **kw)

    def reshape(self, *shape):
        if len(shape) == 1 and isinstance(shape[0], (tuple, list)):
            shape = tuple(shape[0])
        try:
            v = self.arr.reshape(*shape)
            if np.shares_memory(v, self.arr) or v.size == 0:
                return Tracked(self.name, v, self.sim, self._map().reshape(*shape))
        except (AttributeError, ValueError):
            pass
        return np.asarray(self).reshape(*shape)

    def ravel(self):
        return self.reshape(-1)

    def dot(self, other):
        return np.asarray(self).dot(np.asarray(other))

    def sum(self, *a, **k):
        return np.asarray(self).sum(*a, **k)

    @property
    def real(self):
        return np.asarray(self).real

    @property
    def imag(self):
        return np.asarray(self).imag

    def fill(self, value):
        self[...] = value

    def __iter__(self):
        for i in range(len(self.arr)):
            yield self[i]


def _binop(name, reflected=False):
    import operator as _op

    f = getattr(_op, name)

    def method(self, other):
        a = np.asarray(self)
        b = np.asarray(other) if isinstance(other, Tracked) else other
        return f(b, a) if reflected else f(a, b)

    return method


for _nm in ("add", "sub", "mul", "truediv", "floordiv", "mod", "pow", "matmul", "lt", "le", "gt", "ge", "eq", "ne"):
    setattr(Tracked, "__%s__" % _nm, _binop(_nm))
for _nm in ("add", "sub", "mul", "truediv", "floordiv", "mod", "pow", "matmul"):
    setattr(Tracked, "__r%s__" % _nm, _binop(_nm, reflected=True))
Tracked.__neg__ = lambda self: -np.asarray(self)
Tracked.__abs__ = lambda self: abs(np.asarray(self))
Tracked.__hash__ = None


class _Abort(BaseException):
    """Raised inside worker threads to unwind them when a region run is abandoned."""


class Schedule(object):
    """Everything that decides one execution of one region (JSON-able)."""

    def __init__(self, workers=1, assignment="static_block", chunk=1, policy="serial", p=0.0, seed=0,
                 pct_depth=0, stall=None, directed=None, perm_seed=None):
        self.workers = workers
        self.assignment = assignment
        self.chunk = chunk
        self.policy = policy
        self.p = p
        self.seed = seed
        self.pct_depth = pct_depth
        self.stall = stall
        self.directed = directed
        self.perm_seed = perm_seed

    def to_json(self):
        return dict(self.__dict__)

    @staticmethod
    def from_json(d):
        s = Schedule()
        s.__dict__.update(d)
        return s

    def label(self):
        return "%s/W%d/%s" % (self.policy, self.workers, self.assignment)


def make_assignment(sched, n):
    """Return (per-worker static lists or None, shared queue or None)."""
    W = sched.workers
    kind = sched.assignment
    its = list(range(n))
    if kind == "static_block":
        base, extra = divmod(n, W)
        lists = []
        pos = 0
        for w in range(W):
            size = base + (1 if w < extra else 0)
            lists.append(its[pos : pos + size])
            pos += size
        return lists, None
    if kind == "static_cyclic":
        c = max(1, sched.chunk)
        lists = [[] for _ in range(W)]
        for b, start in enumerate(range(0, n, c)):
            lists[b % W].extend(its[start : start + c])
        return lists, None
    if kind == "permutation":
        r = random.Random(sched.perm_seed)
        r.shuffle(its)
        lists = [its[w::W] for w in range(W)]
        return lists, None
    if kind == "explicit":
        return [list(x) for x in sched.directed["lists"]], None
    if kind in ("dynamic", "guided"):
        return None, its
    raise ValueError(kind)


class RegionRun(object):
    """One execution of one region under one schedule."""

    def __init__(self, sim, n, body, sched, monitor=None, est_steps=1000):
        self.sim = sim
        self.n = n
        self.body = body
        self.sched = sched
        self.monitor = monitor
        self.rng = random.Random(sched.seed)
        self.steps = 0
        self.switches = 0
        self.trace = []  # run-length encoded: [worker, number of steps]
        self.error = None
        self.W = sched.workers
        self.events = [threading.Event() for _ in range(self.W)]
        self.main_event = threading.Event()
        self.done = [False] * self.W
        self.current = None
        self.cur_iter = [None] * self.W
        self.lists, self.queue = make_assignment(sched, n)
        self.remaining = n
        self.aborting = False
        self.est_steps = max(1, est_steps)
        self.preempt_between_load_store = 0
        self.partials = {}  # scalar reductions: (region, name) -> {"op":..., "parts": {worker: partial}}
        self.in_aug = [False] * self.W
        # PCT
        if sched.policy == "pct":
            self.prio = list(range(self.W))
            self.rng.shuffle(self.prio)
            self.change_points = sorted(self.rng.randrange(self.est_steps) for _ in range(sched.pct_depth))
            self.low = -1
        # directed
        self.dstate = 0

    # -------- iteration hand-out
    def next_iteration(self, w):
        if self.lists is not None:
            lst = self.lists[w]
            if lst:
                return lst.pop(0)
            return None
        # dynamic / guided: claimed at the moment the scheduler lets the worker run
        if not self.queue:
            return None
        if self.sched.assignment == "guided":
            size = max(1, len(self.queue) // (2 * self.W))
        else:
            size = max(1, self.sched.chunk)
        chunk = self.queue[:size]
        del self.queue[:size]
        self.lists_dyn = getattr(self, "lists_dyn", {})
        self.lists_dyn.setdefault(w, []).extend(chunk[1:])
        return chunk[0]

    def _next(self, w):
        dyn = getattr(self, "lists_dyn", None)
        if dyn and dyn.get(w):
            return dyn[w].pop(0)
        return self.next_iteration(w)

    # -------- worker threads
    def _worker(self, w):
        try:
            self.events[w].wait()
            self.events[w].clear()
            if self.aborting:
                return
            while True:
                it = self._next(w)
                if it is None:
                    break
                self.cur_iter[w] = it
                if self.monitor is not None:
                    self.monitor.begin_iteration(it)
                self.body(it)
                if self.monitor is not None:
                    self.monitor.end_iteration(it)
                self.cur_iter[w] = None
                self.point(w, "iter_end", None, None)
        except _Abort:
            return
        except BaseException as e:  # noqa: BLE001
            self.error = e
        finally:
            self.done[w] = True
            self._finish(w)

    def _finish(self, w):
        if self.aborting:
            return
        nxt = self._pick_runnable(exclude=w)
        if nxt is None:
            self.main_event.set()
        else:
            self._log_switch(nxt)
            self.current = nxt
            self.events[nxt].set()

    def _runnable(self, exclude=None):
        return [k for k in range(self.W) if not self.done[k] and k != exclude]

    def _pick_runnable(self, exclude=None):
        r = self._runnable(exclude)
        if not r:
            return None
        if self.sched.policy == "pct":
            return max(r, key=lambda k: self.prio[k])
        if self.sched.policy == "stall" and self.sched.stall in r and len(r) > 1:
            r = [k for k in r if k != self.sched.stall]
        if self.sched.policy == "directed":
            # finish in worker order once the directed part is over
            return r[0]
        return r[self.rng.randrange(len(r))] if len(r) > 1 else r[0]

    def _log_switch(self, to):
        self.switches += 1
        self.trace.append([to, 0])

    # -------- pre-emption points (called by the running worker thread)
    def point(self, w, kind, tracked, cells):
        if self.W == 1:
            self.steps += 1
            return
        self.steps += 1
        if self.trace:
            self.trace[-1][1] += 1
        nxt = self._decide(w, kind, tracked, cells)
        if nxt is None or nxt == w:
            return
        if kind == "aug_load":
            self.preempt_between_load_store += 1
        self._log_switch(nxt)
        self.current = nxt
        self.events[nxt].set()
        self.events[w].wait()
        self.events[w].clear()
        if self.aborting:
            raise _Abort()

    def _decide(self, w, kind, tracked, cells):
        pol = self.sched.policy
        if pol == "random":
            if self.rng.random() < self.sched.p:
                r = self._runnable(exclude=w)
                if r:
                    return r[self.rng.randrange(len(r))]
            return None
        if pol == "stall":
            if self.rng.random() < self.sched.p:
                r = [k for k in self._runnable(exclude=w) if k != self.sched.stall]
                if r:
                    return r[self.rng.randrange(len(r))]
            return None
        if pol == "pct":
            while self.change_points and self.steps >= self.change_points[0]:
                self.change_points.pop(0)
                self.prio[w] = self.low
                self.low -= 1
            r = self._runnable()
            best = max(r, key=lambda k: self.prio[k])
            return best if best != w else None
        if pol == "directed":
            return self._decide_directed(w, kind, tracked, cells)
        return None

    def _decide_directed(self, w, kind, tracked, cells):
        d = self.sched.directed
        if self.dstate == 2:
            return None
        hit = tracked is not None and tracked.name == d["array"] and cells is not None and d["cell"] in cells
        if d["mode"] == "lost_update":
            # worker 0 runs iteration A up to just after its load of the cell; worker 1 then runs
            # iteration B through its store of the cell; then worker 0 resumes
            if self.dstate == 0 and w == 0 and hit and kind == "aug_load" and self.cur_iter[0] == d["a"]:
                self.dstate = 1
                return 1 if not self.done[1] else None
            if self.dstate == 1 and w == 1 and hit and kind in ("store_done", "aug_store") and self.cur_iter[1] == d["b"]:
                self.dstate = 2
                return 0 if not self.done[0] else None
            if self.dstate == 1 and w == 1 and kind == "iter_end" and self.cur_iter[1] is None and not self.lists[1]:
                self.dstate = 2
                return 0 if not self.done[0] else None
            return None
        if d["mode"] == "interpose_after_store":
            # worker 0 runs iteration A up to just after a store to the cell; worker 1 then runs iteration B
            # through its store of the cell; worker 0 resumes and reads what B left there (shared scratch)
            if self.dstate == 0 and w == 0 and hit and kind in ("store_done", "aug_store") and self.cur_iter[0] == d["a"]:
                self.dstate = 1
                return 1 if not self.done[1] else None
            if self.dstate == 1 and w == 1 and hit and kind in ("store_done", "aug_store") and self.cur_iter[1] == d["b"]:
                self.dstate = 2
                return 0 if not self.done[0] else None
            if self.dstate == 1 and w == 1 and kind == "iter_end" and self.cur_iter[1] is None and not self.lists[1]:
                self.dstate = 2
                return 0 if not self.done[0] else None
            return None
        if d["mode"] == "reorder":
            # worker 1 (holding B) runs completely before worker 0 (holding A) starts
            return None
        return None

    # -------- driver
    def run(self):
        if self.W == 1:
            # serial execution, in iteration order of the (single) list
            w = 0
            self.current = 0
            while True:
                it = self._next(w)
                if it is None:
                    break
                self.cur_iter[0] = it
                if self.monitor is not None:
                    self.monitor.begin_iteration(it)
                self.body(it)
                if self.monitor is not None:
                    self.monitor.end_iteration(it)
                self.steps += 1
            return
        threads = [threading.Thread(target=self._worker, args=(w,), daemon=True) for w in range(self.W)]
        for t in threads:
            t.start()
        first = self._first_worker()
        self.current = first
        self.trace.append([first, 0])
        self.events[first].set()
        self.main_event.wait()
        for t in threads:
            t.join(timeout=30)
        if self.error is not None:
            raise self.error

    def _first_worker(self):
        pol = self.sched.policy
        if pol == "pct":
            return max(range(self.W), key=lambda k: self.prio[k])
        if pol == "directed":
            return 1 if self.sched.directed["mode"] == "reorder" else 0
        if pol == "stall":
            r = [k for k in range(self.W) if k != self.sched.stall]
            return r[self.rng.randrange(len(r))] if r else 0
        return self.rng.randrange(self.W)

    def trace_digest(self):
        return hashlib.sha256(repr(self.trace).encode()).hexdigest()[:16]


class Monitor(object):
    """Access monitor of the serial pass: which iterations read / wrote which cell."""

    def __init__(self):
        self.cur = None
        self.cells = {}  # (array name, cell) -> [set(readers), set(writers), set(rmw iterations), nonzero increments]
        self.accesses = 0

    def begin_iteration(self, it):
        self.cur = it

    def end_iteration(self, it):
        self.cur = None

    def record(self, name, cells, mode, nonzero=False):
        self.accesses += 1
        for c in cells:
            e = self.cells.get((name, c))
            if e is None:
                e = [set(), set(), set(), set()]
                self.cells[(name, c)] = e
            if mode == "r":
                e[0].add(self.cur)
            elif mode == "w":
                e[1].add(self.cur)
            elif mode == "rmw":
                e[0].add(self.cur)
                e[1].add(self.cur)
                e[2].add(self.cur)
            if nonzero:
                e[3].add(self.cur)

    def candidates(self):
        """Cells touched by two different iterations with at least one write."""
        out = []
        for (name, c), (rd, wr, rmw, nz) in self.cells.items():
            its = rd | wr
            if len(its) >= 2 and wr:
                out.append({
                    "array": name,
                    "cell": c,
                    "iterations": sorted(its),
                    "writers": sorted(wr),
                    "rmw": sorted(rmw),
                    "nonzero": sorted(nz),
                })
        out.sort(key=lambda d: (-(len(d["nonzero"]) >= 2), d["array"], d["cell"]))
        return out
