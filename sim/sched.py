"""Simulated parallel runtime for prange regions: workers, schedules, tracked arrays.

`Sim.parallel_for` replaces the Numba parfor runtime.  Workers are real threads, but exactly
one runs at any time: each parks on its own Event and is released by the scheduler (baton
passing), so the interleaving is the sequence of scheduler decisions and nothing else.
Pre-emption points are the loads and stores of tracked (shared, written) arrays and the
boundaries between iterations.
"""

import hashlib
import operator
import random
import threading

import numpy as np

_OPS = {
    "add": operator.add,
    "sub": operator.sub,
    "mul": operator.mul,
    "truediv": operator.truediv,
    "floordiv": operator.floordiv,
    "mod": operator.mod,
    "pow": operator.pow,
    "or": operator.or_,
    "and": operator.and_,
    "xor": operator.xor,
    "lshift": operator.lshift,
    "rshift": operator.rshift,
    "matmul": operator.matmul,
}


class SimError(Exception):
    """The simulator cannot represent what the kernel does (harness error, never a violation)."""


class Tracked(object):
    """Proxy for a shared array written inside a prange body."""

    __slots__ = ("name", "arr", "sim", "flat_index", "__weakref__")

    def __init__(self, name, arr, sim):
        self.name = name
        self.arr = arr
        self.sim = sim
        self.flat_index = None

    # array-like surface used by kernel bodies
    @property
    def dtype(self):
        return self.arr.dtype

    @property
    def shape(self):
        return self.arr.shape

    @property
    def ndim(self):
        return self.arr.ndim

    @property
    def size(self):
        return self.arr.size

    def __len__(self):
        return len(self.arr)

    def cells(self, idx):
        """Flat cell numbers addressed by idx (tuple of ints for a scalar access)."""
        a = self.arr
        try:
            if a.ndim == 1 and not isinstance(idx, (tuple, slice, np.ndarray, list)):
                i = int(idx)
                if i < 0:
                    i += a.shape[0]
                return (i,)
            if isinstance(idx, tuple) and len(idx) == a.ndim and all(
                not isinstance(j, (slice, np.ndarray, list, type(None), type(Ellipsis))) for j in idx
            ):
                flat = 0
                for j, n in zip(idx, a.shape):
                    j = int(j)
                    if j < 0:
                        j += n
                    flat = flat * n + j
                return (flat,)
        except TypeError:
            pass
        if self.flat_index is None:
            self.flat_index = np.arange(a.size).reshape(a.shape)
        return tuple(int(c) for c in np.asarray(self.flat_index[idx]).ravel())

    def __getitem__(self, idx):
        cells = self.cells(idx)
        self.sim.access(self, cells, "load")
        v = self.arr[idx]
        if isinstance(v, np.ndarray):
            v = v.copy()
            v.flags.writeable = False
        return v

    def __setitem__(self, idx, value):
        cells = self.cells(idx)
        self.sim.access(self, cells, "store")
        if isinstance(value, Tracked):
            value = value.arr
        self.arr[idx] = value
        self.sim.access(self, cells, "store_done")

    def __array__(self, dtype=None, copy=None):
        raise SimError("tracked array %r used as a whole-array operand inside a prange body" % self.name)


class _Abort(BaseException):
    """Raised inside worker threads to unwind them when a region run is abandoned."""


class Schedule(object):
    """Everything that decides one execution of one region (JSON-able)."""

    def __init__(self, workers=1, assignment="static_block", chunk=1, policy="serial", p=0.0, seed=0,
                 pct_depth=0, stall=None, directed=None, perm_seed=None):
        self.workers = workers
        self.assignment = assignment
        self.chunk = chunk
        self.policy = policy
        self.p = p
        self.seed = seed
        self.pct_depth = pct_depth
        self.stall = stall
        self.directed = directed
        self.perm_seed = perm_seed

    def to_json(self):
        return dict(self.__dict__)

    @staticmethod
    def from_json(d):
        s = Schedule()
        s.__dict__.update(d)
        return s

    def label(self):
        return "%s/W%d/%s" % (self.policy, self.workers, self.assignment)


def make_assignment(sched, n):
    """Return (per-worker static lists or None, shared queue or None)."""
    W = sched.workers
    kind = sched.assignment
    its = list(range(n))
    if kind == "static_block":
        base, extra = divmod(n, W)
        lists = []
        pos = 0
        for w in range(W):
            size = base + (1 if w < extra else 0)
            lists.append(its[pos : pos + size])
            pos += size
        return lists, None
    if kind == "static_cyclic":
        c = max(1, sched.chunk)
        lists = [[] for _ in range(W)]
        for b, start in enumerate(range(0, n, c)):
            lists[b % W].extend(its[start : start + c])
        return lists, None
    if kind == "permutation":
        r = random.Random(sched.perm_seed)
        r.shuffle(its)
        lists = [its[w::W] for w in range(W)]
        return lists, None
    if kind == "explicit":
        return [list(x) for x in sched.directed["lists"]], None
    if kind in ("dynamic", "guided"):
        return None, its
    raise ValueError(kind)


class RegionRun(object):
    """One execution of one region under one schedule."""

    def __init__(self, sim, n, body, sched, monitor=None, est_steps=1000):
        self.sim = sim
        self.n = n
        self.body = body
        self.sched = sched
        self.monitor = monitor
        self.rng = random.Random(sched.seed)
        self.steps = 0
        self.switches = 0
        self.trace = []  # run-length encoded: [worker, number of steps]
        self.error = None
        self.W = sched.workers
        self.events = [threading.Event() for _ in range(self.W)]
        self.main_event = threading.Event()
        self.done = [False] * self.W
        self.current = None
        self.cur_iter = [None] * self.W
        self.lists, self.queue = make_assignment(sched, n)
        self.remaining = n
        self.aborting = False
        self.est_steps = max(1, est_steps)
        self.preempt_between_load_store = 0
        self.partials = {}  # scalar reductions: (region, name) -> {"op":..., "parts": {worker: partial}}
        self.in_aug = [False] * self.W
        # PCT
        if sched.policy == "pct":
            self.prio = list(range(self.W))
            self.rng.shuffle(self.prio)
            self.change_points = sorted(self.rng.randrange(self.est_steps) for _ in range(sched.pct_depth))
            self.low = -1
        # directed
        self.dstate = 0

    # -------- iteration hand-out
    def next_iteration(self, w):
        if self.lists is not None:
            lst = self.lists[w]
            if lst:
                return lst.pop(0)
            return None
        # dynamic / guided: claimed at the moment the scheduler lets the worker run
        if not self.queue:
            return None
        if self.sched.assignment == "guided":
            size = max(1, len(self.queue) // (2 * self.W))
        else:
            size = max(1, self.sched.chunk)
        chunk = self.queue[:size]
        del self.queue[:size]
        self.lists_dyn = getattr(self, "lists_dyn", {})
        self.lists_dyn.setdefault(w, []).extend(chunk[1:])
        return chunk[0]

    def _next(self, w):
        dyn = getattr(self, "lists_dyn", None)
        if dyn and dyn.get(w):
            return dyn[w].pop(0)
        return self.next_iteration(w)

    # -------- worker threads
    def _worker(self, w):
        try:
            self.events[w].wait()
            self.events[w].clear()
            if self.aborting:
                return
            while True:
                it = self._next(w)
                if it is None:
                    break
                self.cur_iter[w] = it
                if self.monitor is not None:
                    self.monitor.begin_iteration(it)
                self.body(it)
                if self.monitor is not None:
                    self.monitor.end_iteration(it)
                self.cur_iter[w] = None
                self.point(w, "iter_end", None, None)
        except _Abort:
            return
        except BaseException as e:  # noqa: BLE001
            self.error = e
        finally:
            self.done[w] = True
            self._finish(w)

    def _finish(self, w):
        if self.aborting:
            return
        nxt = self._pick_runnable(exclude=w)
        if nxt is None:
            self.main_event.set()
        else:
            self._log_switch(nxt)
            self.current = nxt
            self.events[nxt].set()

    def _runnable(self, exclude=None):
        return [k for k in range(self.W) if not self.done[k] and k != exclude]

    def _pick_runnable(self, exclude=None):
        r = self._runnable(exclude)
        if not r:
            return None
        if self.sched.policy == "pct":
            return max(r, key=lambda k: self.prio[k])
        if self.sched.policy == "stall" and self.sched.stall in r and len(r) > 1:
            r = [k for k in r if k != self.sched.stall]
        if self.sched.policy == "directed":
            # finish in worker order once the directed part is over
            return r[0]
        return r[self.rng.randrange(len(r))] if len(r) > 1 else r[0]

    def _log_switch(self, to):
        self.switches += 1
        self.trace.append([to, 0])

    # -------- pre-emption points (called by the running worker thread)
    def point(self, w, kind, tracked, cells):
        if self.W == 1:
            self.steps += 1
            return
        self.steps += 1
        if self.trace:
            self.trace[-1][1] += 1
        nxt = self._decide(w, kind, tracked, cells)
        if nxt is None or nxt == w:
            return
        if kind == "aug_load":
            self.preempt_between_load_store += 1
        self._log_switch(nxt)
        self.current = nxt
        self.events[nxt].set()
        self.events[w].wait()
        self.events[w].clear()
        if self.aborting:
            raise _Abort()

    def _decide(self, w, kind, tracked, cells):
        pol = self.sched.policy
        if pol == "random":
            if self.rng.random() < self.sched.p:
                r = self._runnable(exclude=w)
                if r:
                    return r[self.rng.randrange(len(r))]
            return None
        if pol == "stall":
            if self.rng.random() < self.sched.p:
                r = [k for k in self._runnable(exclude=w) if k != self.sched.stall]
                if r:
                    return r[self.rng.randrange(len(r))]
            return None
        if pol == "pct":
            while self.change_points and self.steps >= self.change_points[0]:
                self.change_points.pop(0)
                self.prio[w] = self.low
                self.low -= 1
            r = self._runnable()
            best = max(r, key=lambda k: self.prio[k])
            return best if best != w else None
        if pol == "directed":
            return self._decide_directed(w, kind, tracked, cells)
        return None

    def _decide_directed(self, w, kind, tracked, cells):
        d = self.sched.directed
        if self.dstate == 2:
            return None
        hit = tracked is not None and tracked.name == d["array"] and cells is not None and d["cell"] in cells
        if d["mode"] == "lost_update":
            # worker 0 runs iteration A up to just after its load of the cell; worker 1 then runs
            # iteration B through its store of the cell; then worker 0 resumes
            if self.dstate == 0 and w == 0 and hit and kind == "aug_load" and self.cur_iter[0] == d["a"]:
                self.dstate = 1
                return 1 if not self.done[1] else None
            if self.dstate == 1 and w == 1 and hit and kind in ("store_done", "aug_store") and self.cur_iter[1] == d["b"]:
                self.dstate = 2
                return 0 if not self.done[0] else None
            if self.dstate == 1 and w == 1 and kind == "iter_end" and self.cur_iter[1] is None and not self.lists[1]:
                self.dstate = 2
                return 0 if not self.done[0] else None
            return None
        if d["mode"] == "interpose_after_store":
            # worker 0 runs iteration A up to just after a store to the cell; worker 1 then runs iteration B
            # through its store of the cell; worker 0 resumes and reads what B left there (shared scratch)
            if self.dstate == 0 and w == 0 and hit and kind in ("store_done", "aug_store") and self.cur_iter[0] == d["a"]:
                self.dstate = 1
                return 1 if not self.done[1] else None
            if self.dstate == 1 and w == 1 and hit and kind in ("store_done", "aug_store") and self.cur_iter[1] == d["b"]:
                self.dstate = 2
                return 0 if not self.done[0] else None
            if self.dstate == 1 and w == 1 and kind == "iter_end" and self.cur_iter[1] is None and not self.lists[1]:
                self.dstate = 2
                return 0 if not self.done[0] else None
            return None
        if d["mode"] == "reorder":
            # worker 1 (holding B) runs completely before worker 0 (holding A) starts
            return None
        return None

    # -------- driver
    def run(self):
        if self.W == 1:
            # serial execution, in iteration order of the (single) list
            w = 0
            self.current = 0
            while True:
                it = self._next(w)
                if it is None:
                    break
                self.cur_iter[0] = it
                if self.monitor is not None:
                    self.monitor.begin_iteration(it)
                self.body(it)
                if self.monitor is not None:
                    self.monitor.end_iteration(it)
                self.steps += 1
            return
        threads = [threading.Thread(target=self._worker, args=(w,), daemon=True) for w in range(self.W)]
        for t in threads:
            t.start()
        first = self._first_worker()
        self.current = first
        self.trace.append([first, 0])
        self.events[first].set()
        self.main_event.wait()
        for t in threads:
            t.join(timeout=30)
        if self.error is not None:
            raise self.error

    def _first_worker(self):
        pol = self.sched.policy
        if pol == "pct":
            return max(range(self.W), key=lambda k: self.prio[k])
        if pol == "directed":
            return 1 if self.sched.directed["mode"] == "reorder" else 0
        if pol == "stall":
            r = [k for k in range(self.W) if k != self.sched.stall]
            return r[self.rng.randrange(len(r))] if r else 0
        return self.rng.randrange(self.W)

    def trace_digest(self):
        return hashlib.sha256(repr(self.trace).encode()).hexdigest()[:16]


class Monitor(object):
    """Access monitor of the serial pass: which iterations read / wrote which cell."""

    def __init__(self):
        self.cur = None
        self.cells = {}  # (array name, cell) -> [set(readers), set(writers), set(rmw iterations), nonzero increments]
        self.accesses = 0

    def begin_iteration(self, it):
        self.cur = it

    def end_iteration(self, it):
        self.cur = None

    def record(self, name, cells, mode, nonzero=False):
        self.accesses += 1
        for c in cells:
            e = self.cells.get((name, c))
            if e is None:
                e = [set(), set(), set(), set()]
                self.cells[(name, c)] = e
            if mode == "r":
                e[0].add(self.cur)
            elif mode == "w":
                e[1].add(self.cur)
            elif mode == "rmw":
                e[0].add(self.cur)
                e[1].add(self.cur)
                e[2].add(self.cur)
            if nonzero:
                e[3].add(self.cur)

    def candidates(self):
        """Cells touched by two different iterations with at least one write."""
        out = []
        for (name, c), (rd, wr, rmw, nz) in self.cells.items():
            its = rd | wr
            if len(its) >= 2 and wr:
                out.append({
                    "array": name,
                    "cell": c,
                    "iterations": sorted(its),
                    "writers": sorted(wr),
                    "rmw": sorted(rmw),
                    "nonzero": sorted(nz),
                })
        out.sort(key=lambda d: (-(len(d["nonzero"]) >= 2), d["array"], d["cell"]))
        return out
