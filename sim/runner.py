"""Seeded multi-process run driver, replay files, known findings and evidence files.

A check provides a `Check` object with

    generate(seed, run) -> case          pure function of (seed, run); JSON-able dict
    execute(case) -> Outcome             deterministic; never raises for a property violation
    minimise(case, outcome) -> case      optional; must keep the same violation class
    signature(case, outcome) -> dict     what a known finding is matched against
    warmup(worker_index, nworkers, tier) optional; JIT compilation for that worker's profile

Exit codes: 0 = property held on everything explored (known findings are listed),
1 = violation (line `VIOLATION property=<id> replay=<path>`), 2 = harness error.
"""

import faulthandler
import json
import multiprocessing
import os
import sys
import time
import traceback

from . import env, rng


class HarnessError(Exception):
    """The machinery (not the code under test) misbehaved."""


class Outcome(object):
    def __init__(self):
        self.violations = []  # list of dict(kind=..., detail=..., ...)
        self.events = []  # event log (JSON-able)
        self.probes = {}  # reach counters
        self.faults = {}  # fault kinds fired
        self.steps = 0  # simulated steps (API calls / scheduling points)
        self.nontrivial = False
        self.state_keys = []  # abstract states / interleavings reached (hashable strings)
        self.sample = None
        self.info = {}

    def probe(self, name, n=1):
        self.probes[name] = self.probes.get(name, 0) + n

    def fault(self, name, n=1):
        self.faults[name] = self.faults.get(name, 0) + n

    def violate(self, kind, **detail):
        d = {"kind": kind}
        d.update(detail)
        self.violations.append(d)

    @property
    def ok(self):
        return not self.violations

    # fields of a violation record that identify it; measured magnitudes (err, rel, ...) are reported but kept
    # out of the digest: their last bits may differ between processes (BLAS / SIMD summation order depends on
    # buffer alignment), which says nothing about the run being the same execution
    STABLE_KEYS = ("kind", "what", "op", "kernel", "space", "step", "region", "region_index_in_kernel", "which",
                   "where", "elements", "dof", "exc", "history_exc", "model_exc", "n_iterations", "schedule",
                   "thread_counts_differing_from_1", "flags")

    def digest(self):
        stable = [{k: v[k] for k in self.STABLE_KEYS if k in v} for v in self.violations]
        return rng.digest({"events": self.events, "violations": stable})

    def to_json(self):
        return {
            "violations": self.violations,
            "digest": self.digest(),
            "probes": self.probes,
            "faults": self.faults,
            "steps": self.steps,
            "nontrivial": self.nontrivial,
            "state_keys": self.state_keys,
            "sample": self.sample,
            "info": self.info,
        }


# --------------------------------------------------------------------------------------
# known findings
# --------------------------------------------------------------------------------------


def load_known_findings(prop):
    # VERIF_KNOWN_FINDINGS is only used by the self-test of this mechanism (tests/test_known_findings.sh)
    path = os.environ.get("VERIF_KNOWN_FINDINGS") or os.path.join(env.VERIF_ROOT, "known_findings.json")
    if not os.path.exists(path):
        return []
    with open(path) as f:
        data = json.load(f)
    return [e for e in data.get("findings", []) if e.get("property") == prop and e.get("status") == "open"]


def match_known(findings, sig):
    """Return the first open finding whose signature is contained in `sig`."""
    for f in findings:
        want = f.get("signature", {})
        if want and all(sig.get(k) == v for k, v in want.items()):
            return f
    return None


# --------------------------------------------------------------------------------------
# worker side
# --------------------------------------------------------------------------------------

_CHECK = None


def _worker_main(args):
    """Body of one forked worker: executes its runs in order, appending one JSON line per run to `path`."""
    (check_factory, seed, runs, worker_index, nworkers, tier, deadline, hang_cap, path, counter, total) = args
    global _CHECK
    faulthandler.enable()
    t0 = time.time()
    with open(path, "w") as f:
        def emit(obj):
            f.write(json.dumps(obj, default=rng._default) + "\n")
            f.flush()

        try:
            if _CHECK is None:
                _CHECK = check_factory()
            chk = _CHECK
            chk.worker_index = worker_index
            chk.nworkers = nworkers
            chk.tier = tier
            if hasattr(chk, "warmup"):
                faulthandler.dump_traceback_later(hang_cap, exit=True)
                chk.warmup(worker_index, nworkers, tier)
                faulthandler.cancel_dump_traceback_later()
            emit({"warm_s": time.time() - t0})
            def run_numbers():
                if counter is None:
                    for r_ in runs:
                        yield r_
                    return
                while True:
                    with counter.get_lock():
                        r_ = counter.value
                        counter.value += 1
                    if r_ >= total:
                        return
                    yield r_

            for r in run_numbers():
                if time.time() > deadline:
                    emit({"skipped_from": r})
                    break
                faulthandler.dump_traceback_later(hang_cap, exit=True)
                t1 = time.time()
                case = chk.generate(seed, r)
                outcome = chk.execute(case)
                res = outcome.to_json()
                res["run"] = r
                res["wall_s"] = time.time() - t1
                if outcome.violations:
                    res["case"] = case
                emit({"result": res})
                faulthandler.cancel_dump_traceback_later()
            emit({"done": True})
        except BaseException:  # noqa: BLE001
            emit({"error": traceback.format_exc()})
        finally:
            faulthandler.cancel_dump_traceback_later()


# --------------------------------------------------------------------------------------
# driver
# --------------------------------------------------------------------------------------


def write_replay(prop, seed, run, case, outcome_json, note=None):
    os.makedirs(env.REPLAYS, exist_ok=True)
    path = os.path.join(env.REPLAYS, "%s-%d-%d.json" % (prop, seed, run))
    with open(path, "w") as f:
        json.dump(
            {
                "property": prop,
                "seed": seed,
                "run": run,
                "case": case,
                "violations": outcome_json["violations"],
                "digest": outcome_json["digest"],
                "note": note,
            },
            f,
            indent=1,
            default=rng._default,
        )
    return path


def verify_replay(prop, path):
    """Re-execute a replay file in a fresh interpreter; True if it reproduces, False if not, None if unknown."""
    import subprocess

    if os.environ.get("VERIF_NO_REPLAY_VERIFY"):
        return None
    cmd = [os.path.join(env.VERIF_ROOT, "bin", "check"), prop, "--replay", path]
    try:
        p = subprocess.run(cmd, capture_output=True, text=True, timeout=3600, cwd=env.VERIF_ROOT)
    except Exception:  # noqa: BLE001
        return None
    if p.returncode == 1 and "VIOLATION property=" in p.stdout:
        return True
    if p.returncode == 0:
        return False
    return None


def replay(check, path):
    """Re-execute a replay file; exit 1 with the VIOLATION line if it reproduces."""
    with open(path) as f:
        data = json.load(f)
    outcome = check.execute(data["case"])
    oj = outcome.to_json()
    print("replay digest recorded=%s observed=%s" % (data.get("digest"), oj["digest"]))
    if outcome.violations:
        for v in outcome.violations[:5]:
            print("  violation:", json.dumps(v, default=rng._default)[:600])
        same = data.get("digest") == oj["digest"]
        print("reproduced=%s identical_digest=%s" % (True, same))
        print("VIOLATION property=%s replay=%s" % (check.prop, path))
        return 1
    print("replay did not reproduce a violation")
    return 0


def run(check_factory, prop, tier, runs, nworkers=None, wall_cap=None, hang_cap=3600, extra_evidence=None, finalize=None,
        affinity=True):
    """Run `runs` seeded runs over a fork pool; write evidence; print verdict; return exit code."""
    t_start = time.time()
    seed = rng.base_seed()
    print("VERIF_SEED=%d property=%s tier=%s runs=%d" % (seed, prop, tier, runs), flush=True)
    if nworkers is None:
        nworkers = min(16, os.cpu_count() or 1, max(1, runs))
    nworkers = max(1, min(nworkers, runs))
    if wall_cap is None:
        wall_cap = 3000 if tier == "quick" else 8 * 3600
    deadline = t_start + wall_cap
    parts = [[r for r in range(runs) if r % nworkers == k] for k in range(nworkers)]
    ctx = multiprocessing.get_context("fork")
    results = []
    errors = []
    warm = []
    check = check_factory()
    global _CHECK
    _CHECK = check  # forked children inherit it (and whatever it compiled in the parent)
    if hasattr(check, "parent_warmup"):
        check.parent_warmup(tier)
    # one forked process per worker; results travel through per-worker JSONL files so that a worker that
    # dies (or hangs and is killed by its watchdog) loses only its own remaining runs
    import tempfile

    outdir = tempfile.mkdtemp(prefix="results_", dir=env.scratch_dir())
    procs = []
    # affinity=True: run r goes to worker r mod nworkers (keeps JIT compilation of one profile in one worker);
    # affinity=False: workers take the next run number from a shared counter (balances uneven run costs).
    # Runs are hermetic, so which worker executes a run does not influence its outcome.
    counter = None if affinity else ctx.Value("i", 0)
    for k in range(nworkers):
        path = os.path.join(outdir, "w%d.jsonl" % k)
        pr = ctx.Process(target=_worker_main, args=((check_factory, seed, parts[k], k, nworkers, tier, deadline, hang_cap, path, counter, runs),))
        pr.start()
        procs.append((k, pr, path))
    for k, pr, path in procs:
        remaining = max(1.0, deadline + hang_cap + 120 - time.time())
        pr.join(remaining)
        if pr.is_alive():
            pr.terminate()
            pr.join(10)
            errors.append("worker %d did not finish in time and was terminated" % k)
    for k, pr, path in procs:
        done = False
        try:
            with open(path) as f:
                for line in f:
                    try:
                        obj = json.loads(line)
                    except ValueError:
                        continue
                    if "result" in obj:
                        results.append(obj["result"])
                    elif "warm_s" in obj:
                        warm.append(obj["warm_s"])
                    elif "error" in obj:
                        errors.append("worker %d: %s" % (k, obj["error"]))
                        done = True
                    elif "done" in obj or "skipped_from" in obj:
                        done = True
        except OSError:
            pass
        if not done:
            errors.append("worker %d died (exit code %s) before finishing its runs" % (k, pr.exitcode))
    import shutil

    shutil.rmtree(outdir, ignore_errors=True)
    results.sort(key=lambda r: r["run"])
    if finalize is not None:
        # side computations started by the check before the pool (e.g. model validation in subprocesses):
        # returns (extra evidence, extra result records in the same shape as worker results, errors)
        try:
            fe, fr, ferr = finalize()
            extra_evidence = dict(extra_evidence or {})
            extra_evidence.update(fe or {})
            results.extend(fr or [])
            errors.extend(ferr or [])
        except Exception:  # noqa: BLE001
            errors.append("finalize: " + traceback.format_exc())

    findings = load_known_findings(prop)
    known_hits = {}
    new_violations = []
    for res in results:
        if not res["violations"]:
            continue
        case = res["case"]
        # classify each violation of the run separately
        unknown = []
        for v in res["violations"]:
            sig = check.signature(case, v)
            kf = match_known(findings, sig)
            if kf is not None:
                known_hits.setdefault(kf["id"], {"finding": kf, "count": 0, "example_run": res["run"]})
                known_hits[kf["id"]]["count"] += 1
            else:
                unknown.append(v)
        if unknown:
            new_violations.append((res, unknown))

    exit_code = 0
    replay_paths = []
    stale = os.path.join(env.REPLAYS, "%s-%d-all-violations.json" % (prop, seed))
    if os.path.exists(stale):
        os.unlink(stale)
    if new_violations:
        # triage aid: every violating run with its signatures (not a replay file)
        os.makedirs(env.REPLAYS, exist_ok=True)
        with open(os.path.join(env.REPLAYS, "%s-%d-all-violations.json" % (prop, seed)), "w") as f:
            json.dump(
                [{"run": res["run"], "violations": unknown, "case": res["case"]} for res, unknown in new_violations],
                f,
                indent=1,
                default=rng._default,
            )
        # minimise and report the first few
        for res, unknown in new_violations[:3]:
            case = res["case"]
            note = None
            if hasattr(check, "minimise"):
                try:
                    small = check.minimise(case, unknown[0])
                    if small is not None:
                        oc = check.execute(small)
                        if oc.violations:
                            case = small
                            res = dict(res)
                            res.update(oc.to_json())
                            note = "minimised"
                except Exception:  # noqa: BLE001
                    note = "minimiser failed: " + traceback.format_exc(limit=2)
            path = write_replay(prop, seed, res["run"], case, res, note)
            # a reported violation must replay in a fresh interpreter; if it does not, a source of
            # nondeterminism escaped the simulator and nothing about this run can be believed
            reproduced = verify_replay(prop, path)
            if reproduced is False:
                errors.append(
                    "violation of run %d did not reproduce from its replay file %s: a seam was missed (harness error)"
                    % (res["run"], path)
                )
                continue
            replay_paths.append(path)
            for v in unknown[:3]:
                print("  violation:", json.dumps(v, default=rng._default)[:800])
            print("VIOLATION property=%s replay=%s" % (prop, path), flush=True)
        if replay_paths:
            exit_code = 1
    for kid, hit in sorted(known_hits.items()):
        print(
            "KNOWN-FINDING: property=%s %s (%s; seen %d times, e.g. run %d)"
            % (prop, hit["finding"]["what"], kid, hit["count"], hit["example_run"])
        )
    if errors:
        for e in errors[:5]:
            print("HARNESS-ERROR:", e[:3000], file=sys.stderr)
        if exit_code == 0:
            exit_code = 2

    wall = time.time() - t_start
    write_evidence(check, prop, tier, seed, results, wall, len(new_violations), known_hits, warm, errors, extra_evidence)
    print(
        "done: %d/%d runs executed, %d new violations, %d known findings, %d harness errors, %.1fs"
        % (len(results), runs, len(new_violations), len(known_hits), len(errors), wall),
        flush=True,
    )
    return exit_code


def write_evidence(check, prop, tier, seed, results, wall, nviol, known_hits, warm, errors, extra):
    probes = {}
    faults = {}
    steps = 0
    states = set()
    nontrivial_keys = set()
    samples = []
    for res in results:
        for k, v in res["probes"].items():
            probes[k] = probes.get(k, 0) + v
        for k, v in res["faults"].items():
            faults[k] = faults.get(k, 0) + v
        steps += res["steps"]
        for s in res["state_keys"]:
            states.add(s)
        if res["nontrivial"]:
            nontrivial_keys.add(res["digest"])
        if res.get("sample") is not None and len(samples) < 4:
            samples.append(res["sample"])
    n = len(results)
    coverage = {
        "evaluations": n,
        "distinct_nontrivial": len(nontrivial_keys),
        "rule": check.rule,
        "samples": samples if samples else [{"note": "no run completed"}],
        "simulated_steps": steps,
        "simulated_time": "none: no anchored code reads a clock; progress is counted in simulated steps ("
        + check.step_unit
        + ")",
        "runs_per_hour": round(3600.0 * n / wall, 1) if wall > 0 else 0,
        "seeds": {"VERIF_SEED": seed, "runs": n, "run_seed_derivation": "sha256('<seed>:<check>:<run>:<stream>')"},
        "fault_kinds_fired": faults,
        "fault_kinds_not_injected": check.not_injected,
        "reach_probes": probes,
        "distinct_states_or_interleavings": len(states),
        "distinct_measure": check.state_measure,
        "components": check.components,
        "known_findings_seen": {k: v["count"] for k, v in known_hits.items()},
        "warmup_s_per_worker": [round(w, 1) for w in warm],
        "harness_errors": len(errors),
        "repo_root": env.repo_root(),
    }
    if extra:
        coverage.update(extra)
    if hasattr(check, "extra_evidence"):
        coverage.update(check.extra_evidence())
    if "parallel_kernels_discovered" in coverage:
        entered = sorted(k[len("region:"):] for k in probes if k.startswith("region:"))
        names = sorted(x.rsplit(".", 1)[1] for x in coverage["parallel_kernels_discovered"])
        coverage["parallel_kernels_entered"] = entered
        coverage["parallel_kernels_not_entered"] = [x for x in names if x not in entered]
    ev = {
        "property_id": prop,
        "tier": tier,
        "seed": seed,
        "level": "exploration",
        "coverage": coverage,
        "assumptions": check.assumptions,
        "wall_s": round(wall, 2),
        "violations": nviol,
    }
    os.makedirs(env.EVIDENCE, exist_ok=True)
    path = os.path.join(env.EVIDENCE, "%s.json" % prop)
    tmp = path + ".tmp"
    with open(tmp, "w") as f:
        json.dump(ev, f, indent=1, default=rng._default)
    os.replace(tmp, path)
    return path


def print_digests(check, runs, repeat=1):
    """Determinism aid: print one line `DIGEST <run> <digest>` per run (executed `repeat` times in-process)."""
    seed = rng.base_seed()
    bad = 0
    for r in runs:
        ds = []
        for _ in range(repeat):
            case = check.generate(seed, r)
            oc = check.execute(case)
            ds.append(oc.digest())
        if len(set(ds)) != 1:
            bad += 1
            print("NONDETERMINISTIC run=%d digests=%s" % (r, ds), flush=True)
        print("DIGEST %d %s %s" % (r, ds[0], rng.digest(case)), flush=True)
    return 1 if bad else 0


def parse_runs(text):
    out = []
    for part in text.split(","):
        if "-" in part:
            a, b = part.split("-")
            out.extend(range(int(a), int(b) + 1))
        else:
            out.append(int(part))
    return out
