"""The parallel-region simulator: installs interpreted, scheduler-owned versions of every
`parallel=True` Numba kernel of bempp-cl and explores schedules of each region in place.

Region protocol (DESIGN.md section 4.3): snapshot the shared written arrays; run the region
serially (this is also the write-discovery pass and the access monitor); then re-run it under
K further schedules, each time from the snapshot, comparing the arrays bitwise with the serial
outcome; finally commit the serial outcome and let the assembly continue.
"""

import inspect
import random

import numpy as np

from . import kernel_transform as kt
from .sched import Monitor, RegionRun, Schedule, SimError, Tracked, _OPS

ASSIGNMENTS = ("static_block", "static_cyclic", "dynamic", "guided", "permutation")


class SimKernel(object):
    """Callable that replaces a parallel dispatcher in its module."""

    def __init__(self, sim, module_name, name, dispatcher):
        self.sim = sim
        self.module_name = module_name
        self.name = name
        self.dispatcher = dispatcher
        self.py_func = dispatcher.py_func
        self.fn = None
        self.regions = None
        self.ns = None
        self.__name__ = name

    def prepare(self):
        import sys

        if self.fn is None:
            mod = sys.modules[self.module_name]
            self.fn, self.regions, self.ns = kt.transform_kernel(self.py_func, vars(mod))
            self.sig = inspect.signature(self.py_func)
            self.thread_aware = kt.uses_thread_queries(self.py_func)

    def __call__(self, *args, **kwargs):
        self.prepare()
        return self.sim.run_kernel(self, args, kwargs)


class Sim(object):
    def __init__(self, seed, config, out):
        self.seed = seed
        self.cfg = config
        self.out = out
        self.kernels = {}
        self.installed = []
        self.kernel_stack = []
        self.run_ctx = None  # RegionRun in progress
        self.region_counter = 0
        self.in_region = False
        self.callee_cache = {}
        self.promoted = {}
        self.records = []  # per explored region
        self.violation_count = 0
        self.replay_plan = config.get("replay_plan")  # {region#: [schedule json]} for exact replays
        self.enabled = True
        self.declared_threads = None  # what numba.get_num_threads() answers inside interpreted kernels
        self.red_final = {}
        self.red_fallback = {}

    # ------------------------------------------------------------------ installation
    def install(self):
        import sys

        for mname, name, disp in kt.discover_parallel_kernels():
            k = SimKernel(self, mname, name, disp)
            self.kernels[(mname, name)] = k
            mod = sys.modules[mname]
            self.installed.append((mod, name, disp))
            setattr(mod, name, k)
        return sorted("%s.%s" % key for key in self.kernels)

    def uninstall(self):
        for mod, name, disp in self.installed:
            setattr(mod, name, disp)
        self.installed = []

    def prepare_all(self):
        """Transform every discovered kernel (static refusals surface here)."""
        info = {}
        for key, k in sorted(self.kernels.items()):
            k.prepare()
            info["%s.%s" % key] = [
                {"region": r.index, "line": r.lineno, "written": r.subscript_stored, "passed": r.call_args}
                for r in k.regions
            ]
        return info

    # ------------------------------------------------------------------ kernel execution
    def run_kernel(self, k, args, kwargs):
        k.ns["__sim"] = self
        self.kernel_stack.append(k)
        try:
            self.launch_oracle(k, args, kwargs)
            if getattr(k, "thread_aware", False) and not self.in_region and self.declared_threads is None:
                return self.run_thread_aware_kernel(k, args, kwargs)
            return k.fn(*args, **kwargs)
        finally:
            self.kernel_stack.pop()

    def run_thread_aware_kernel(self, k, args, kwargs):
        """A kernel that asks the runtime for the thread count is executed once per declared count
        (1 last, so that its outputs are the ones the assembly continues with); all outputs -- return value
        and array arguments -- must be bitwise identical to the single-thread execution."""
        self.out.probe("thread_aware_kernel_calls")
        arrays = [(i, a) for i, a in enumerate(args) if isinstance(a, np.ndarray)]
        arrays += [(nm, a) for nm, a in kwargs.items() if isinstance(a, np.ndarray)]
        snap = [(key, a.copy()) for key, a in arrays]
        counts = [c for c in self.cfg.get("worker_counts", [2, 7, 16]) if c != 1]
        for extra in (2, 7, 16):
            if extra not in counts:
                counts.append(extra)
        digests = {}
        saved_cfg = self.cfg
        ret = None
        try:
            for T in counts + [1]:
                for (key, a), (_, s0) in zip(arrays, snap):
                    a[...] = s0
                self.declared_threads = T
                self.cfg = dict(saved_cfg, worker_counts=[T]) if T != 1 else dict(saved_cfg, K=0, max_directed=0)
                ret = k.fn(*args, **kwargs)
                digests[T] = _digest_outputs(ret, [a for _, a in arrays])
        finally:
            self.declared_threads = None
            self.cfg = saved_cfg
        bad = sorted(T for T in digests if digests[T] != digests[1])
        self.out.events.append(["thread_aware", k.name, sorted(digests), bad])
        if bad:
            self.out.violate(
                "thread_count_changes_result",
                kernel=k.name,
                thread_counts_differing_from_1=bad,
                digests={str(T): d for T, d in digests.items()},
            )
        return ret

    def launch_oracle(self, k, args, kwargs):
        """O2 at launch: no two test elements of one regular-assembler batch share a live global dof."""
        params = list(k.sig.parameters)
        if not all(p in params for p in ("test_elements", "test_global_dofs", "test_multipliers")):
            return
        try:
            bound = k.sig.bind(*args, **kwargs)
        except TypeError:
            return
        te = np.asarray(bound.arguments["test_elements"])
        gd = np.asarray(bound.arguments["test_global_dofs"])
        mu = np.asarray(bound.arguments["test_multipliers"])
        self.out.probe("regular_launches")
        if len(te) >= 2:
            self.out.probe("batch_with_2_or_more_test_elements")
        owner = {}
        for e in te:
            e = int(e)
            for loc in range(gd.shape[1]):
                if mu[e, loc] == 0:
                    continue
                d = int(gd[e, loc])
                if d in owner and owner[d] != e:
                    self.out.violate(
                        "batch_shares_global_dof",
                        kernel=k.name,
                        elements=[owner[d], e],
                        dof=d,
                        batch=[int(x) for x in te],
                    )
                    return
                owner[d] = e

    # ------------------------------------------------------------------ hooks used by transformed code
    def access(self, tracked, cells, mode):
        run = self.run_ctx
        if run is None:
            return
        w = run.current
        if mode == "load":
            run.point(w, "load", tracked, cells)
            if run.monitor is not None:
                run.monitor.record(tracked.name, cells, "r")
        elif mode == "store":
            run.point(w, "store", tracked, cells)
            if run.monitor is not None:
                run.monitor.record(tracked.name, cells, "w", True)
        else:
            run.point(w, "store_done", tracked, cells)

    def aug(self, X, idx, opname, v):
        op = _OPS[opname]
        if not isinstance(X, Tracked):
            X[idx] = op(X[idx], v)
            return
        run = self.run_ctx
        cells = X.cells(idx)
        if run is None:
            X.arr[idx] = op(X.arr[idx], v)
            return
        w = run.current
        run.point(w, "aug_pre", X, cells)
        if isinstance(v, Tracked):
            v = np.asarray(v)
        old = X.arr[idx]
        if isinstance(old, np.ndarray):
            old = old.copy()
        if run.monitor is not None:
            try:
                nz = bool(np.any(np.asarray(v) != 0))
            except Exception:  # noqa: BLE001
                nz = True
            run.monitor.record(X.name, cells, "rmw", nz)
        run.point(w, "aug_load", X, cells)  # the window between load and store
        X.arr[idx] = op(old, v)
        run.point(run.current, "aug_store", X, cells)

    # ---- scalar reductions (x op= v on an outer scalar inside a prange body) ---------------------------
    # Numba gives every worker a private copy initialised with the identity and combines the copies after
    # the loop, so a floating-point reduction depends on the worker count and on the iteration assignment.
    def reduce(self, k, name, opname, v):
        run = self.run_ctx
        store = run.partials if run is not None else self.red_fallback
        w = run.current if run is not None else 0
        key = (k, name)
        d = store.setdefault(key, {"op": "mul" if opname == "mul" else "add", "parts": {}})
        parts = d["parts"]
        if w not in parts:
            zero = np.zeros((), dtype=np.asarray(v).dtype)[()]
            parts[w] = (zero + 1) if opname == "mul" else zero
        if opname == "add":
            parts[w] = parts[w] + v
        elif opname == "sub":
            parts[w] = parts[w] - v
        else:
            parts[w] = parts[w] * v

    @staticmethod
    def _fold(entry):
        acc = None
        for w in sorted(entry["parts"]):
            p = entry["parts"][w]
            acc = p if acc is None else ((acc * p) if entry["op"] == "mul" else (acc + p))
        return acc

    def reduce_result(self, k, name, init):
        entry = self.red_final.pop((k, name), None)
        if entry is None:
            entry = self.red_fallback.pop((k, name), None)
        if entry is None or not entry["parts"]:
            return init
        comb = self._fold(entry)
        return (init * comb) if entry["op"] == "mul" else (init + comb)

    def call(self, f, *args, **kwargs):
        if not any(isinstance(a, Tracked) for a in args) and not any(isinstance(a, Tracked) for a in kwargs.values()):
            return f(*args, **kwargs)
        target = f
        if isinstance(f, SimKernel):
            target = f.dispatcher
        py = getattr(target, "py_func", None)
        if py is not None:
            ent = self.callee_cache.get(py)
            if ent is None:
                import sys

                mod = sys.modules[py.__module__]
                fn, ns = kt.transform_callee(py, vars(mod))
                ent = (fn, ns)
                self.callee_cache[py] = ent
            fn, ns = ent
            ns["__sim"] = self
            self.out.probe("callee_interpreted")
            return fn(*args, **kwargs)
        if inspect.isfunction(f):
            return f(*args, **kwargs)
        raise SimError(
            "shared array passed to %r, which has no Python source: cannot observe its accesses" % (f,)
        )

    # ------------------------------------------------------------------ schedules
    def plan(self, region_id, n, candidates, est_steps):
        """The schedules explored for this region (list of Schedule)."""
        if self.replay_plan is not None:
            return [Schedule.from_json(d) for d in self.replay_plan.get(str(region_id), [])]
        cfg = self.cfg
        r = random.Random("%s:%s:%s" % (self.seed, "plan", region_id))
        out = []
        if n < 2:
            return out
        worker_counts = list(cfg.get("worker_counts", [2, 7]))
        K = int(cfg.get("K", 3))
        # cost bound: a region with very many scheduling points is explored under fewer schedules
        budget = float(cfg.get("max_points_per_region", 2.5e6))
        if est_steps > 0 and K > 2:
            K = int(max(2, min(K, budget // max(1, est_steps))))
        policies = cfg.get("policies", ["random", "pct", "stall"])
        for j in range(K):
            W = worker_counts[j % len(worker_counts)] if j < len(worker_counts) else r.choice(worker_counts + [r.randint(3, 12)])
            W = max(2, min(W, 64))
            pol = policies[j % len(policies)] if j < len(policies) else r.choice(policies)
            s = Schedule(
                workers=W,
                assignment=r.choice(ASSIGNMENTS),
                chunk=r.choice([1, 1, 2, 3]),
                policy=pol,
                p=r.choice(cfg.get("switch_probs", [0.002, 0.02, 0.2, 0.5])),
                seed=r.randrange(1 << 30),
                pct_depth=r.choice([1, 2, 3]),
                stall=r.randrange(W),
                perm_seed=r.randrange(1 << 30),
            )
            # bound the cost of a schedule: expected number of context switches per region run
            cap = float(cfg.get("max_switches", 1500))
            if est_steps > 0:
                s.p = min(s.p, cap / float(est_steps))
            out.append(s)
        # directed schedules for conflict candidates: for a pair of iterations (x, y) meeting in one cell
        #   lost_update(x, y): x is stopped between its load and its store of the cell, y runs through its
        #                      store, x resumes (and overwrites y's update) -- both role assignments are tried,
        #                      because an iteration that only adds zero still writes back a stale value;
        #   reorder:           the later iteration runs completely before the earlier one.
        maxd = int(cfg.get("max_directed", 8))
        if candidates:
            pool = list(candidates)
            front = [c for c in pool if len(c["nonzero"]) >= 2]
            mid = [c for c in pool if len(c["nonzero"]) == 1]
            rest = [c for c in pool if len(c["nonzero"]) == 0]
            r.shuffle(front)
            r.shuffle(mid)
            r.shuffle(rest)
            chosen = (front + mid + rest)[:maxd]
            for c in chosen:
                its = c["iterations"]
                nz = c["nonzero"]
                # prefer a pair with as many non-zero contributors as possible
                pref = [i for i in its if i in nz] + [i for i in its if i not in nz]
                x, y = pref[0], pref[1]
                lo, hi = (x, y) if x < y else (y, x)
                rest_its = [i for i in range(n) if i not in (lo, hi)]
                plans = []
                for first, second in ((lo, hi), (hi, lo)):
                    if first in c["rmw"]:
                        plans.append(("lost_update", first, second))
                plans.append(("reorder", lo, hi))
                plain = [i for i in c["writers"] if i not in c["rmw"]]
                if plain:
                    for first, second in ((lo, hi), (hi, lo)):
                        if first in c["writers"]:
                            plans.append(("interpose_after_store", first, second))
                for mode, a, b in plans:
                    out.append(
                        Schedule(
                            workers=2,
                            assignment="explicit",
                            policy="directed",
                            seed=r.randrange(1 << 30),
                            directed={
                                "mode": mode,
                                "array": c["array"],
                                "cell": c["cell"],
                                "a": a,
                                "b": b,
                                "lists": [[a] + rest_its, [b]],
                            },
                        )
                    )
        return out

    # ------------------------------------------------------------------ the region protocol
    def parallel_for(self, k, range_args, body, getters, rebind, sub_stored):
        if not isinstance(range_args, tuple):
            range_args = (range_args,)
        its = range(*[int(a) for a in range_args])
        n = len(its)
        if not (its.start == 0 and its.step == 1):
            inner = body
            values = list(its)

            def body(j, inner=inner, values=values):  # noqa: F811
                return inner(values[j])

        kernel = self.kernel_stack[-1] if self.kernel_stack else None
        kname = kernel.name if kernel is not None else "?"
        if self.in_region or not self.enabled:
            # a parallel region reached from inside another one runs serially (Numba's own rule)
            saved = self.run_ctx
            self.run_ctx = None
            try:
                for i in range(n):
                    body(i)
            finally:
                self.run_ctx = saved
            return
        region_id = self.region_counter
        self.region_counter += 1
        shared = {}
        for name, g in getters.items():
            try:
                v = g()
            except NameError:
                continue
            if isinstance(v, np.ndarray):
                shared[name] = v
        key = (kname, k)
        tracked_names = set(x for x in sub_stored if x in shared) | (self.promoted.get(key, set()) & set(shared))
        self.in_region = True
        try:
            while True:
                snap = {nm: a.copy() for nm, a in shared.items()}
                proxies = {nm: Tracked(nm, shared[nm], self) for nm in tracked_names}
                rebind(proxies)
                mon = Monitor()
                serial = RegionRun(self, n, body, Schedule(workers=1, policy="serial"), monitor=mon)
                self.run_ctx = serial
                try:
                    serial.run()
                finally:
                    self.run_ctx = None
                    rebind({nm: shared[nm] for nm in tracked_names})
                # write discovery: an untracked shared array that changed was written through a callee
                changed = [
                    nm for nm, a in shared.items() if nm not in tracked_names and a.tobytes() != snap[nm].tobytes()
                ]
                if not changed:
                    break
                for nm, a in shared.items():
                    a[...] = snap[nm]
                tracked_names |= set(changed)
                self.promoted.setdefault(key, set()).update(changed)
                self.out.probe("write_discovered_through_callee")
            serial_state = {nm: shared[nm].copy() for nm in tracked_names}
            serial_red = {key: self._fold(e) for key, e in serial.partials.items() if key[0] == k}
            for key, e in serial.partials.items():
                if key[0] == k:
                    self.red_final[key] = e
                    self.out.probe("scalar_reduction_regions")
            cands = mon.candidates()
            est = max(serial.steps, mon.accesses * 3 + n)
            rec = {
                "region": region_id,
                "kernel": kname,
                "k": k,
                "n": n,
                "tracked": sorted(tracked_names),
                "candidates": len(cands),
                "candidates_nonzero": sum(1 for c in cands if len(c["nonzero"]) >= 2),
                "schedules": [],
            }
            self.out.probe("regions_explored")
            self.out.probe("region:" + kname)
            if cands:
                self.out.probe("candidate_conflicts", len(cands))
            plan = self.plan(region_id, n, cands, est)
            for sched in plan:
                for nm in tracked_names:
                    shared[nm][...] = snap[nm]
                proxies = {nm: Tracked(nm, shared[nm], self) for nm in tracked_names}
                rebind(proxies)
                run = RegionRun(self, n, body, sched, monitor=None, est_steps=est)
                self.run_ctx = run
                try:
                    run.run()
                finally:
                    self.run_ctx = None
                    rebind({nm: shared[nm] for nm in tracked_names})
                self.out.steps += run.steps
                equal = True
                diff = None
                for nm in sorted(tracked_names):
                    if shared[nm].tobytes() != serial_state[nm].tobytes():
                        equal = False
                        a = shared[nm].ravel()
                        b = serial_state[nm].ravel()
                        bad = np.flatnonzero(~((a == b) | ((a != a) & (b != b))))
                        cell = int(bad[0]) if len(bad) else -1
                        diff = {
                            "array": nm,
                            "cell": cell,
                            "serial": repr(b[cell]) if cell >= 0 else None,
                            "scheduled": repr(a[cell]) if cell >= 0 else None,
                            "cells_differing": int(len(bad)),
                        }
                        break
                if equal and serial_red:
                    for key, ref in sorted(serial_red.items()):
                        got = self._fold(run.partials.get(key, {"op": "add", "parts": {}}))
                        same = got is not None and np.asarray(got).tobytes() == np.asarray(ref).tobytes() and np.asarray(got).dtype == np.asarray(ref).dtype
                        if not same:
                            equal = False
                            diff = {"reduction_variable": key[1], "serial": repr(ref), "scheduled": repr(got)}
                            break
                rec["schedules"].append(
                    [sched.label(), run.switches, run.trace_digest(), bool(equal)]
                )
                self.out.probe("schedules_run")
                self.out.probe("policy:" + sched.policy)
                self.out.probe("assignment:" + sched.assignment)
                self.out.probe("W=%d" % sched.workers)
                if run.preempt_between_load_store:
                    self.out.probe("switch_between_load_and_store", run.preempt_between_load_store)
                if sched.policy == "directed":
                    self.out.probe("directed_schedules_run")
                    self.out.fault("directed_" + sched.directed["mode"])
                elif sched.policy == "stall":
                    self.out.fault("stalled_worker")
                elif sched.policy == "pct":
                    self.out.fault("pct_priority_change", sched.pct_depth)
                else:
                    self.out.fault("random_preemption", run.switches)
                self.out.state_keys.append("%s|%s|%s" % (kname, sched.label(), run.trace_digest()))
                if not equal:
                    self.violation_count += 1
                    if self.violation_count <= 3:
                        self.out.violate(
                            "schedule_changes_result",
                            kernel=kname,
                            region=region_id,
                            region_index_in_kernel=k,
                            n_iterations=n,
                            schedule=sched.to_json(),
                            switches=run.switches,
                            trace=run.trace[:200],
                            diff=diff,
                        )
            for nm in tracked_names:
                shared[nm][...] = serial_state[nm]
            rec["digest"] = _digest_arrays(serial_state)
            self.records.append(rec)
            self.out.events.append(
                [region_id, kname, k, n, rec["candidates"], rec["schedules"], rec["digest"]]
            )
        finally:
            self.in_region = False
            self.run_ctx = None


def _digest_outputs(ret, arrays):
    import hashlib

    h = hashlib.sha256()
    items = list(ret) if isinstance(ret, (tuple, list)) else [ret]
    for obj in items + list(arrays):
        if isinstance(obj, np.ndarray):
            h.update(str(obj.dtype).encode() + str(obj.shape).encode())
            h.update(np.ascontiguousarray(obj).tobytes())
        else:
            h.update(repr(obj).encode())
    return h.hexdigest()[:16]


def _digest_arrays(d):
    import hashlib

    h = hashlib.sha256()
    # rounded: the last bits of compiled helpers / numpy reductions may differ between processes (buffer
    # alignment); the bitwise comparisons of the oracle are always made within one process
    for nm in sorted(d):
        h.update(nm.encode())
        a = np.ascontiguousarray(d[nm])
        if a.dtype.kind in "fc":
            a = np.round(a.astype(np.complex128 if a.dtype.kind == "c" else np.float64), 9) + 0.0
        h.update(a.tobytes())
    return h.hexdigest()[:16]
