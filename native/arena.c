/* Arena allocator for CPython that keeps freed small chunks on a free list.
 *
 * CPython 3.11/3.12 allocate interpreter-frame stack chunks (16 KiB) with mmap and
 * release them with munmap every time the call depth crosses a chunk boundary.  Numba's
 * compiler recurses deeply, which produces ~10^5 mmap/munmap pairs per compiled kernel;
 * in this sandbox munmap costs ~0.4 ms when 16 processes run, which makes the harness
 * 5x slower.  This changes no behaviour of the code under test; it is a performance aid
 * for the harness processes only and is optional (the checks run without it).
 */
#define _GNU_SOURCE
#include <stddef.h>
#include <sys/mman.h>

#define SMALL 16384
#define MAXFREE 4096

typedef struct {
    void *ctx;
    void *(*alloc)(void *ctx, size_t size);
    void (*free)(void *ctx, void *ptr, size_t size);
} PyObjectArenaAllocator;

extern void PyObject_SetArenaAllocator(PyObjectArenaAllocator *allocator);

static void *freelist[MAXFREE];
static int nfree = 0;

static void *arena_alloc(void *ctx, size_t size) {
    (void)ctx;
    if (size == SMALL && nfree > 0) {
        return freelist[--nfree];
    }
    void *p = mmap(NULL, size, PROT_READ | PROT_WRITE, MAP_PRIVATE | MAP_ANONYMOUS, -1, 0);
    if (p == MAP_FAILED) return NULL;
    return p;
}

static void arena_free(void *ctx, void *ptr, size_t size) {
    (void)ctx;
    if (size == SMALL && nfree < MAXFREE) {
        freelist[nfree++] = ptr;
        return;
    }
    munmap(ptr, size);
}

static PyObjectArenaAllocator allocator = {NULL, arena_alloc, arena_free};

/* Called with the GIL held (via ctypes.PyDLL). */
int verif_install_arena(void) {
    PyObject_SetArenaAllocator(&allocator);
    return 0;
}
