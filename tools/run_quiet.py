#!/venv/bin/python
"""Run the quick checks against semantics-preserving changes (quiet/<id>/patch.diff): every check must exit 0.

quiet/<id>/meta.json names the checks to run ("properties").  Scratch worktree under $TMPDIR, removed afterwards;
evidence and replays of these runs are redirected to a temporary directory.  Outcome -> quiet/<id>/result.json.
usage: tools/run_quiet.py [--only id,id] [--jobs J] [--workers W]
"""

import argparse
import json
import os
import shutil
import subprocess
import sys
import tempfile
import time
from concurrent.futures import ThreadPoolExecutor

HERE = os.path.dirname(os.path.dirname(os.path.abspath(__file__)))


def run_one(qid, args):
    d = os.path.join(HERE, "quiet", qid)
    meta = json.load(open(os.path.join(d, "meta.json")))
    tmp = tempfile.mkdtemp(prefix="verif_quiet_")
    wt = os.path.join(tmp, "wt")
    res = {"id": qid, "checks": {}}
    t0 = time.time()
    try:
        subprocess.run(["git", "-C", args.repo, "worktree", "add", "-q", "--detach", wt, "HEAD"], check=True, capture_output=True)
        ap = subprocess.run(["git", "-C", wt, "apply", os.path.join(d, "patch.diff")], capture_output=True, text=True)
        if ap.returncode != 0:
            res["result"] = "PATCH-DOES-NOT-APPLY: " + ap.stderr[-300:]
            return res
        env = dict(os.environ)
        env["VERIF_REPO"] = wt
        env["VERIF_EVIDENCE_DIR"] = os.path.join(tmp, "evidence")
        env["VERIF_REPLAY_DIR"] = os.path.join(tmp, "replays")
        ok = True
        for prop in meta["properties"]:
            cmd = [os.path.join(HERE, "bin", "check"), prop, "--tier", "quick", "--workers", str(args.workers)]
            if prop == "C16":
                cmd += ["--no-crosscheck"]
            p = subprocess.run(cmd, capture_output=True, text=True, env=env, cwd=HERE)
            last = p.stdout.strip().splitlines()[-1] if p.stdout.strip() else ""
            entry = {"exit": p.returncode, "last_line": last}
            if p.returncode != 0:
                ok = False
                entry["violations"] = [ln[:600] for ln in p.stdout.splitlines() if ln.startswith(("VIOLATION", "  violation"))][:6]
                entry["stderr"] = p.stderr[-2500:]
            res["checks"][prop] = entry
        res["result"] = "QUIET" if ok else "ALARM"
    finally:
        subprocess.run(["git", "-C", args.repo, "worktree", "remove", "--force", wt], capture_output=True)
        shutil.rmtree(tmp, ignore_errors=True)
        res["wall_s"] = round(time.time() - t0, 1)
    with open(os.path.join(d, "result.json"), "w") as f:
        json.dump(res, f, indent=1)
    return res


def main():
    ap = argparse.ArgumentParser()
    ap.add_argument("--only", default=None)
    ap.add_argument("--jobs", type=int, default=1)
    ap.add_argument("--workers", type=int, default=16)
    ap.add_argument("--repo", default="/repo")
    args = ap.parse_args()
    ids = sorted(x for x in os.listdir(os.path.join(HERE, "quiet")) if os.path.exists(os.path.join(HERE, "quiet", x, "patch.diff")))
    if args.only:
        ids = [x for x in ids if x in args.only.split(",")]
    with ThreadPoolExecutor(max_workers=args.jobs) as ex:
        for res in ex.map(lambda s: run_one(s, args), ids):
            print(json.dumps(res)[:1500], flush=True)


if __name__ == "__main__":
    sys.exit(main())
