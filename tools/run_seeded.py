#!/venv/bin/python
"""Run the registered quick checks against the independently written breakages in seeded/<id>/.

For each seeded/<id>/ (patch.diff + meta.json naming the property) the patch is applied to a scratch
worktree of /repo under $TMPDIR (removed afterwards) and the property's quick check is run against
it through VERIF_REPO with evidence and replays redirected to a temporary directory.  The outcome is
written to seeded/<id>/result.json: exit code, number of VIOLATION lines, first violation kind,
whether the replay file reproduces.

usage: tools/run_seeded.py [--only id,id] [--runs N] [--jobs J] [--workers W]
"""

import argparse
import json
import os
import shutil
import subprocess
import sys
import tempfile
import time
from concurrent.futures import ThreadPoolExecutor

HERE = os.path.dirname(os.path.dirname(os.path.abspath(__file__)))


def run_one(sid, args):
    d = os.path.join(HERE, "seeded", sid)
    meta = json.load(open(os.path.join(d, "meta.json")))
    prop = meta["property"]
    tmp = tempfile.mkdtemp(prefix="verif_seed_")
    wt = os.path.join(tmp, "wt")
    res = {"id": sid, "property": prop}
    t0 = time.time()
    try:
        subprocess.run(["git", "-C", args.repo, "worktree", "add", "-q", "--detach", wt, "HEAD"], check=True, capture_output=True)
        ap = subprocess.run(["git", "-C", wt, "apply", os.path.join(d, "patch.diff")], capture_output=True, text=True)
        if ap.returncode != 0:
            ap = subprocess.run(["git", "-C", wt, "apply", "--3way", os.path.join(d, "patch.diff")], capture_output=True, text=True)
        if ap.returncode != 0:
            res["result"] = "PATCH-DOES-NOT-APPLY: " + ap.stderr[-300:]
            return res
        env = dict(os.environ)
        env["VERIF_REPO"] = wt
        env["VERIF_EVIDENCE_DIR"] = os.path.join(tmp, "evidence")
        env["VERIF_REPLAY_DIR"] = os.path.join(tmp, "replays")
        cmd = [os.path.join(HERE, "bin", "check"), prop, "--tier", args.tier, "--workers", str(args.workers)]
        if args.runs:
            cmd += ["--runs", str(args.runs)]
        if prop == "C16":
            cmd += ["--no-crosscheck"]
        p = subprocess.run(cmd, capture_output=True, text=True, env=env, cwd=HERE)
        res["exit"] = p.returncode
        lines = [ln for ln in p.stdout.splitlines() if ln.startswith("VIOLATION")]
        res["violation_lines"] = len(lines)
        res["last_line"] = p.stdout.strip().splitlines()[-1] if p.stdout.strip() else ""
        if lines:
            rp = lines[0].split("replay=")[1].strip()
            try:
                rj = json.load(open(rp))
                res["first_violation"] = {k: rj["violations"][0].get(k) for k in ("kind", "what", "op", "kernel", "space") if k in rj["violations"][0]}
                res["minimised"] = rj.get("note")
            except Exception as e:  # noqa: BLE001
                res["first_violation"] = repr(e)
            q = subprocess.run([os.path.join(HERE, "bin", "check"), prop, "--replay", rp], capture_output=True, text=True, env=env, cwd=HERE)
            res["replay_exit"] = q.returncode
            res["replay_identical_digest"] = "identical_digest=True" in q.stdout
        if p.returncode == 2:
            res["stderr"] = p.stderr[-1500:]
        res["result"] = "CAUGHT" if p.returncode == 1 else ("MISSED" if p.returncode == 0 else "HARNESS-ERROR")
    finally:
        subprocess.run(["git", "-C", args.repo, "worktree", "remove", "--force", wt], capture_output=True)
        shutil.rmtree(tmp, ignore_errors=True)
        res["wall_s"] = round(time.time() - t0, 1)
    with open(os.path.join(d, "result.json"), "w") as f:
        json.dump(res, f, indent=1)
    return res


def main():
    ap = argparse.ArgumentParser()
    ap.add_argument("--only", default=None)
    ap.add_argument("--runs", type=int, default=0)
    ap.add_argument("--jobs", type=int, default=1)
    ap.add_argument("--workers", type=int, default=16)
    ap.add_argument("--tier", default="quick")
    ap.add_argument("--repo", default="/repo")
    args = ap.parse_args()
    ids = sorted(x for x in os.listdir(os.path.join(HERE, "seeded")) if os.path.exists(os.path.join(HERE, "seeded", x, "patch.diff")))
    if args.only:
        ids = [x for x in ids if x in args.only.split(",")]
    with ThreadPoolExecutor(max_workers=args.jobs) as ex:
        for res in ex.map(lambda s: run_one(s, args), ids):
            print(json.dumps(res), flush=True)


if __name__ == "__main__":
    sys.exit(main())
