#!/venv/bin/python
"""Confirm an independently written breakage before it is kept under seeded/<id>/.

usage: tools/confirm_seed.py <id> <dir with patch.diff, demo.py[, fake/], meta.json> [--skip-tests]

In a scratch worktree of /repo (under $TMPDIR, removed afterwards):
  1. demo.py must exit 0 on the unchanged tree,
  2. the patch must apply, the package must still import, demo.py must exit non-zero,
  3. the repository's test suite must pass exactly the tests of /root/.vp/BASELINE.json stable_pass.
The files are copied to seeded/<id>/ and the outcome is recorded in seeded/<id>/meta.json ("confirmed").
"""

import json
import os
import re
import shutil
import subprocess
import sys
import tempfile
import xml.etree.ElementTree as ET

HERE = os.path.dirname(os.path.dirname(os.path.abspath(__file__)))


def sh(cmd, **kw):
    return subprocess.run(cmd, capture_output=True, text=True, **kw)


def main():
    sid, src = sys.argv[1], os.path.abspath(sys.argv[2])
    skip_tests = "--skip-tests" in sys.argv
    dst = os.path.join(HERE, "seeded", sid)
    os.makedirs(dst, exist_ok=True)
    for name in os.listdir(src):
        if name in ("patch.diff", "meta.json", "fake") or name.startswith("demo"):
            s = os.path.join(src, name)
            d = os.path.join(dst, name)
            if os.path.isdir(s):
                shutil.rmtree(d, ignore_errors=True)
                shutil.copytree(s, d, ignore=shutil.ignore_patterns("__pycache__"))
            elif name.endswith((".py", ".diff", ".json")):
                shutil.copy(s, d)
    meta = json.load(open(os.path.join(dst, "meta.json")))
    tmp = tempfile.mkdtemp(prefix="verif_confirm_")
    wt = os.path.join(tmp, "wt")
    conf = {}
    try:
        sh(["git", "-C", "/repo", "worktree", "add", "-q", "--detach", wt, "HEAD"])
        conf["base_commit"] = sh(["git", "-C", wt, "rev-parse", "--short", "HEAD"]).stdout.strip()
        env = dict(os.environ)
        env["PYTHONPATH"] = wt + os.pathsep + os.path.join(HERE, "tools", "site")
        env["NUMBA_NUM_THREADS"] = "4"
        demo = os.path.join(dst, "demo.py")
        # demos were written against /tmp/seed_outN paths for their fake package: run them from the copy
        text = open(demo).read()
        text2 = re.sub(r"/tmp/seed_out\d+", dst, text)
        if text2 != text:
            open(demo, "w").write(text2)
        p0 = sh(["/venv/bin/python", demo], env=env, cwd=dst)
        conf["demo_unpatched_exit"] = p0.returncode
        ap = sh(["git", "-C", wt, "apply", os.path.join(dst, "patch.diff")])
        conf["patch_applies"] = ap.returncode == 0
        if ap.returncode != 0:
            conf["patch_error"] = ap.stderr[-400:]
        imp = sh(["/venv/bin/python", "-c", "import bempp_cl.api, bempp_cl, sys; print(bempp_cl.__file__)"], env=env, cwd=tmp)
        conf["imports_from_worktree"] = wt in imp.stdout
        p1 = sh(["/venv/bin/python", demo], env=env, cwd=dst)
        conf["demo_patched_exit"] = p1.returncode
        conf["demo_patched_tail"] = (p1.stdout + p1.stderr)[-400:]
        if not skip_tests:
            junit = os.path.join(tmp, "junit.xml")
            env2 = dict(env)
            if "--default-threads" in sys.argv:
                env2.pop("NUMBA_NUM_THREADS", None)  # the pinned baseline command does not set it (16 here)
                conf["suite_threads"] = "default"
            else:
                env2["NUMBA_NUM_THREADS"] = "4"
                conf["suite_threads"] = "4"
            t = sh(["/venv/bin/python", "-m", "pytest", "-ra", "-q", "-p", "no:cacheprovider", "--timeout=900",
                    "--continue-on-collection-errors", "--junitxml=" + junit], env=env2, cwd=wt)
            passed = set()
            try:
                for tc in ET.parse(junit).getroot().iter("testcase"):
                    if not list(tc):
                        passed.add("%s::%s" % (tc.get("classname"), tc.get("name")))
            except Exception as e:  # noqa: BLE001
                conf["junit_error"] = repr(e)
            base = set(json.load(open("/root/.vp/BASELINE.json"))["stable_pass"])
            conf["tests_passed"] = len(passed)
            conf["baseline_stable_pass"] = len(base)
            conf["baseline_tests_now_failing"] = sorted(base - passed)
            conf["suite_tail"] = t.stdout.strip().splitlines()[-1:] if t.stdout.strip() else []
        conf["ok"] = bool(
            conf.get("demo_unpatched_exit") == 0 and conf.get("patch_applies") and conf.get("demo_patched_exit") not in (0, None)
            and (skip_tests or not conf.get("baseline_tests_now_failing"))
        )
    finally:
        sh(["git", "-C", "/repo", "worktree", "remove", "--force", wt])
        shutil.rmtree(tmp, ignore_errors=True)
    meta["confirmed"] = conf
    json.dump(meta, open(os.path.join(dst, "meta.json"), "w"), indent=1)
    print(json.dumps(conf, indent=1))
    return 0 if conf.get("ok") else 1


if __name__ == "__main__":
    sys.exit(main())
