"""Optional: loaded through PYTHONPATH by tools/confirm_seed.py so that the repository's own test suite
(which compiles many Numba kernels) is not slowed down by CPython's frame-chunk mmap/munmap churn when
several suites run side by side.  Performance aid only (see native/arena.c)."""
import os

try:
    import ctypes

    _so = os.path.join(os.path.dirname(os.path.dirname(os.path.dirname(os.path.abspath(__file__)))), "native", "_arena.so")
    if os.path.exists(_so) and not os.environ.get("VERIF_NO_ARENA"):
        ctypes.PyDLL(_so).verif_install_arena()
except Exception:  # noqa: BLE001
    pass
