#!/bin/sh
# Self-test of the known-findings mechanism: with an OPEN finding whose signature matches, a violating tree
# yields "KNOWN-FINDING:" lines and exit 0; a different violation of the same property is still reported.
set -e
HERE="$(cd "$(dirname "$0")/.." && pwd)"
TMP="$(mktemp -d)"
trap 'git -C /repo worktree remove --force "$TMP/wt" >/dev/null 2>&1; rm -rf "$TMP"' EXIT
git -C /repo worktree add -q --detach "$TMP/wt" HEAD
# mutant: double-layer sign flipped in the FMM evaluator
/venv/bin/python - "$TMP/wt" <<'PY'
import sys
p = sys.argv[1] + "/bempp_cl/api/fmm/fmm_assembler.py"
s = open(p).read()
old = "        fmm_res = -(fmm_res1 + fmm_res2 + fmm_res3)\n\n        return target_map @ fmm_res + singular_part @ x"
assert s.count(old) == 1
open(p, "w").write(s.replace(old, "        fmm_res = fmm_res1 + fmm_res2 + fmm_res3\n\n        return target_map @ fmm_res + singular_part @ x"))
PY
cat > "$TMP/kf_match.json" <<'JSON'
{"findings": [{"id": "T1", "property": "C17", "status": "open", "what": "FMM double layer boundary operators differ from dense (test finding)", "signature": {"kind": "fmm_differs_from_dense", "op": "double_layer"}},
              {"id": "T2", "property": "C17", "status": "open", "what": "FMM double layer inside histories (test finding)", "signature": {"kind": "history_value_differs", "opname": "double_layer"}},
              {"id": "T3", "property": "C17", "status": "open", "what": "FMM double layer final recheck (test finding)", "signature": {"what": "final_recheck", "opname": "double_layer"}}]}
JSON
cat > "$TMP/kf_other.json" <<'JSON'
{"findings": [{"id": "T9", "property": "C17", "status": "open", "what": "something else", "signature": {"kind": "fmm_differs_from_dense", "op": "single_layer"}}]}
JSON
export VERIF_REPO="$TMP/wt" VERIF_EVIDENCE_DIR="$TMP/ev" VERIF_REPLAY_DIR="$TMP/rp"
cd "$HERE"
# runs 1, 17, 33 ... are the laplace double layer profile; restrict to boundary sweep runs
set +e
VERIF_KNOWN_FINDINGS="$TMP/kf_match.json" bin/check C17 --no-reference --runs 34 --workers 8 > "$TMP/out1" 2>&1; e1=$?
VERIF_KNOWN_FINDINGS="$TMP/kf_other.json" bin/check C17 --no-reference --runs 34 --workers 8 > "$TMP/out2" 2>&1; e2=$?
set -e
echo "matching finding: exit $e1, $(grep -c '^KNOWN-FINDING:' "$TMP/out1") KNOWN-FINDING lines, $(grep -c '^VIOLATION' "$TMP/out1") VIOLATION lines"
echo "other finding:    exit $e2, $(grep -c '^KNOWN-FINDING:' "$TMP/out2") KNOWN-FINDING lines, $(grep -c '^VIOLATION' "$TMP/out2") VIOLATION lines"
[ "$e1" = 0 ] && grep -q '^KNOWN-FINDING: property=C17' "$TMP/out1" && [ "$e2" = 1 ] && grep -q '^VIOLATION property=C17' "$TMP/out2" && echo "known-findings self-test OK" && exit 0
tail -5 "$TMP/out1" "$TMP/out2"
echo "known-findings self-test FAILED"; exit 1
