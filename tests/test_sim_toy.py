"""Self-tests of the parallel-region simulator on toy kernels (no bempp-cl involved).

Run: /venv/bin/python tests/test_sim_toy.py   (exit 0 = all expectations met)
"""

import os
import sys

sys.path.insert(0, os.path.dirname(os.path.dirname(os.path.abspath(__file__))))

import numba  # noqa: E402
import numpy as np  # noqa: E402

from sim import parsim  # noqa: E402
from sim.runner import Outcome  # noqa: E402
from sim.kernel_transform import TransformError, transform_kernel  # noqa: E402


@numba.jit(nopython=True, parallel=True)
def scatter_add(result, idx, vals):
    for i in numba.prange(len(idx)):
        result[idx[i]] += vals[i]


@numba.jit(nopython=True, parallel=True)
def shared_scratch(result, vals):
    tmp = np.zeros(1)
    for i in numba.prange(len(vals)):
        tmp[0] = vals[i]
        result[i] = tmp[0] * 2.0


@numba.jit(nopython=True, parallel=True)
def private_scratch(result, vals):
    for i in numba.prange(len(vals)):
        tmp = np.zeros(1)
        tmp[0] = vals[i]
        result[i] = tmp[0] * 2.0


@numba.jit(nopython=True)
def callee_write(result, i, v):
    result[i // 2] += v


@numba.jit(nopython=True, parallel=True)
def through_callee(result, vals):
    for i in numba.prange(len(vals)):
        callee_write(result, i, vals[i])


@numba.jit(nopython=True, parallel=True)
def reduction(vals):
    acc = 0.0
    for i in numba.prange(len(vals)):
        acc += vals[i]
    return acc


@numba.jit(nopython=True, parallel=True)
def last_writer(result, vals):
    for i in numba.prange(len(vals)):
        result[0] = vals[i]


@numba.jit(nopython=True, parallel=True)
def blocked_by_thread_count(result, vals):
    nb = numba.get_num_threads()
    partial = np.zeros(nb)
    for b in numba.prange(nb):
        acc = 0.0
        for j in range(b, len(vals), nb):
            acc += vals[j]
        partial[b] = acc
    for b in range(nb):
        result[0] += partial[b]


@numba.jit(nopython=True, parallel=True)
def int_reduction(vals):
    acc = 0
    for i in numba.prange(len(vals)):
        acc += vals[i]
    return acc


@numba.jit(nopython=True, parallel=True)
def strided(result, vals):
    for i in numba.prange(1, len(vals), 2):
        result[i] = vals[i] * 2.0


@numba.jit(nopython=True)
def callee_kw(result, i, v):
    result[i] = v


@numba.jit(nopython=True, parallel=True)
def through_callee_kw(result, vals):
    for i in numba.prange(len(vals)):
        callee_kw(result, i, v=vals[i])


@numba.jit(nopython=True, parallel=True)
def scratch_rows_by_view(result, vals, nrows):
    work = np.empty((nrows, 4))
    for i in numba.prange(len(vals)):
        row = work[i % nrows]
        for j in range(4):
            row[j] = vals[i] + j
        acc = 0.0
        for j in range(4):
            acc += row[j]
        result[i] = acc


def run(kernel, args, cfg=None):
    out = Outcome()
    cfg = dict(cfg or {})
    cfg.setdefault("K", 6)
    cfg.setdefault("worker_counts", [2, 7, 16, 3])
    sim = parsim.Sim(12345, cfg, out)
    k = parsim.SimKernel(sim, __name__, kernel.py_func.__name__, kernel)
    k(*args)
    return out


def expect(name, cond):
    print(("ok   " if cond else "FAIL ") + name)
    return 0 if cond else 1


def main():
    bad = 0
    # disjoint cells: no candidates, no violation
    res = np.zeros(8)
    out = run(scatter_add, (res, np.arange(8), np.arange(8.0) + 1))
    bad += expect("disjoint scatter: no violation", not out.violations and out.probes.get("candidate_conflicts", 0) == 0)
    bad += expect("disjoint scatter: result committed", np.array_equal(res, np.arange(8.0) + 1))
    # two iterations add non-zero values to one cell: lost update and reorder both visible
    res = np.zeros(4)
    out = run(scatter_add, (res, np.array([0, 1, 2, 1]), np.array([0.1, 0.2, 0.3, 0.7])))
    bad += expect("colliding scatter: violation found", any(v["kind"] == "schedule_changes_result" for v in out.violations))
    bad += expect("colliding scatter: found by a directed schedule", out.probes.get("directed_schedules_run", 0) > 0)
    # one real contributor and one that adds exactly zero: only one role assignment loses the update
    for order in ((0.5, 0.0), (0.0, 0.5)):
        res = np.ones(3)
        out = run(scatter_add, (res, np.array([1, 1, 2]), np.array([order[0], order[1], 0.25])), {"K": 0})
        bad += expect("zero adder %s: stale write-back detected" % (order,), any(v["kind"] == "schedule_changes_result" for v in out.violations))
    # both add zero: a formal race that cannot change a bit -> no alarm
    res = np.ones(3)
    out = run(scatter_add, (res, np.array([1, 1, 2]), np.array([0.0, 0.0, 0.25])))
    bad += expect("two zero adders: candidate but no violation", not out.violations and out.probes.get("candidate_conflicts", 0) > 0)
    # scratch buffer shared between iterations
    res = np.zeros(6)
    out = run(shared_scratch, (res, np.arange(6.0) + 1))
    bad += expect("hoisted scratch buffer: violation found", any(v["kind"] == "schedule_changes_result" for v in out.violations))
    res = np.zeros(6)
    out = run(shared_scratch, (res, np.arange(6.0) + 1), {"K": 0})
    bad += expect("hoisted scratch buffer: found by a directed schedule alone", any(v["kind"] == "schedule_changes_result" for v in out.violations))
    res = np.zeros(6)
    out = run(private_scratch, (res, np.arange(6.0) + 1))
    bad += expect("private scratch buffer: quiet", not out.violations)
    # write through a callee is discovered and interpreted
    res = np.zeros(3)
    out = run(through_callee, (res, np.arange(6.0) + 1))
    bad += expect("write through callee: discovered", out.probes.get("write_discovered_through_callee", 0) > 0)
    bad += expect("write through callee: collision found", any(v["kind"] == "schedule_changes_result" for v in out.violations))
    # last writer wins
    res = np.zeros(1)
    out = run(last_writer, (res, np.arange(4.0) + 1))
    bad += expect("last writer wins: violation found", any(v["kind"] == "schedule_changes_result" for v in out.violations))
    # a floating-point scalar reduction depends on the worker count (Numba combines per-worker partial sums)
    vals = 1.0 / (np.arange(50.0) + 3.0)
    out = Outcome()
    sim = parsim.Sim(5, {"K": 6, "worker_counts": [2, 7, 16]}, out)
    k = parsim.SimKernel(sim, __name__, "reduction", reduction)
    total = k(vals)
    bad += expect("float reduction: flagged as schedule dependent", any(v["kind"] == "schedule_changes_result" for v in out.violations))
    bad += expect("float reduction: serial value returned", abs(total - vals.sum()) < 1e-12)
    out = Outcome()
    sim = parsim.Sim(5, {"K": 6, "worker_counts": [2, 7, 16]}, out)
    k = parsim.SimKernel(sim, __name__, "int_reduction", int_reduction)
    total = k(np.arange(50))
    bad += expect("integer reduction: exact, quiet", not out.violations and int(total) == 1225)
    # prange with start and step
    res = np.zeros(9)
    out = run(strided, (res, np.arange(9.0)))
    bad += expect("prange(start, stop, step): quiet and correct", not out.violations and np.array_equal(res[1::2], np.arange(9.0)[1::2] * 2) and not res[0::2].any())
    # keyword arguments on a callee that writes a shared array
    res = np.zeros(5)
    out = run(through_callee_kw, (res, np.arange(5.0) + 1))
    bad += expect("callee with keyword argument: interpreted, quiet", not out.violations and np.array_equal(res, np.arange(5.0) + 1))
    # scratch rows reached through a view of a shared array: shared between iterations i and i + nrows
    res = np.zeros(6)
    out = run(scratch_rows_by_view, (res, np.arange(6.0) + 1, 2), {"K": 0})
    bad += expect("scratch rows through a view (2 rows, 6 iterations): found by directed schedules", any(v["kind"] == "schedule_changes_result" for v in out.violations))
    bad += expect("scratch rows through a view: write discovered", out.probes.get("write_discovered_through_callee", 0) > 0)
    res = np.zeros(6)
    out = run(scratch_rows_by_view, (res, np.arange(6.0) + 1, 6))
    bad += expect("scratch rows through a view (one row per iteration): quiet", not out.violations and np.array_equal(res, 4 * (np.arange(6.0) + 1) + 6))
    # a kernel whose summation order depends on numba.get_num_threads()
    res = np.zeros(1)
    vals = 1.0 / (np.arange(40.0) + 3.0)
    out = run(blocked_by_thread_count, (res, vals))
    bad += expect("thread-count dependent blocking: violation found", any(v["kind"] == "thread_count_changes_result" for v in out.violations))
    bad += expect("thread-count dependent blocking: single-thread result committed", res[0] == np.add.reduce(vals[:1]) + sum(vals[1:]) or abs(res[0] - vals.sum()) < 1e-12)
    # determinism of the schedule search itself
    d = []
    for _ in range(2):
        res = np.zeros(4)
        out = run(scatter_add, (res, np.array([0, 1, 2, 1]), np.array([0.1, 0.2, 0.3, 0.7])))
        d.append(out.digest())
    bad += expect("same seed, same event log", d[0] == d[1])
    print("toy self-test: %d failures" % bad)
    return 1 if bad else 0


if __name__ == "__main__":
    sys.exit(main())
