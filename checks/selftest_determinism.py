"""Determinism self-test: one seed + one run number is one exactly repeatable execution.

For each claimed property a sample of runs is executed
  (a) twice in one process,
  (b) in a fresh interpreter,
  (c) in a fresh interpreter under another PYTHONHASHSEED,
  (d) split over several concurrently running interpreters (load, different process ids),
and all event-log digests of one run must be equal.  Exit 0 = deterministic, 1 = divergence.
"""

import os
import subprocess
import sys

HERE = os.path.dirname(os.path.dirname(os.path.abspath(__file__)))


def digests(prop, runs, hashseed, repeat=1, seed="0"):
    env = dict(os.environ)
    env["VERIF_HASHSEED"] = hashseed
    env["PYTHONHASHSEED"] = hashseed
    env["VERIF_SEED"] = seed
    cmd = [os.path.join(HERE, "bin", "check"), prop, "--digests", runs, "--repeat", str(repeat)]
    return subprocess.Popen(cmd, stdout=subprocess.PIPE, stderr=subprocess.STDOUT, env=env, text=True, cwd=HERE)


def parse(text):
    out = {}
    nondet = []
    for line in text.splitlines():
        if line.startswith("DIGEST "):
            _, r, d, c = line.split()
            out[int(r)] = (d, c)
        if line.startswith("NONDETERMINISTIC"):
            nondet.append(line)
    return out, nondet


def main():
    import argparse

    ap = argparse.ArgumentParser()
    ap.add_argument("--props", default="C16,C17,C18")
    ap.add_argument("--n", type=int, default=16, help="runs per property")
    ap.add_argument("--offset", type=int, default=0)
    ap.add_argument("--seed", default="0")
    args = ap.parse_args()
    failed = 0
    for prop in args.props.split(","):
        base = args.offset + (24 if prop == "C17" else 0)  # skip the stored reference vectors of C17
        runs = list(range(base, base + args.n))
        allruns = "%d-%d" % (runs[0], runs[-1])
        procs = [("same-process-twice", digests(prop, allruns, "0", repeat=2, seed=args.seed)),
                 ("other-hashseed", digests(prop, allruns, "12345", seed=args.seed))]
        # (d) split into 4 concurrent interpreters
        q = max(1, len(runs) // 4)
        for j in range(0, len(runs), q):
            part = runs[j : j + q]
            procs.append(("split%d" % j, digests(prop, "%d-%d" % (part[0], part[-1]), "0", seed=args.seed)))
        results = []
        for name, p in procs:
            text, _ = p.communicate()
            d, nondet = parse(text)
            if p.returncode not in (0,) or nondet:
                print("%s %s: exit %s %s" % (prop, name, p.returncode, nondet[:2]))
                print(text[-1500:])
                failed += 1
            results.append((name, d))
        ref = results[0][1]
        split = {}
        for name, d in results[2:]:
            split.update(d)
        for name, d in [results[1], ("split-interpreters", split)]:
            for r in runs:
                if r not in d or r not in ref:
                    print("%s run %d missing in %s" % (prop, r, name))
                    failed += 1
                elif d[r] != ref[r]:
                    print("%s run %d DIVERGES: %s=%s reference=%s" % (prop, r, name, d[r], ref[r]))
                    failed += 1
        print("%s: %d runs x 4 configurations, %s" % (prop, len(runs), "all digests equal" if not failed else "FAILURES so far: %d" % failed), flush=True)
    return 1 if failed else 0


if __name__ == "__main__":
    sys.exit(main())
