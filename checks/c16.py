"""C16 -- assembly results are independent of thread count and scheduling.

Every `parallel=True` Numba kernel is executed from its original source under a simulated
parallel runtime (sim/parsim.py): seeded worker counts, iteration-to-worker assignments and
pre-emption schedules, plus directed lost-update / reorder schedules at every cell the access
monitor sees touched by two iterations.  Oracles: O1 bitwise equality with the serial
execution of each region, O2 the colouring clause of the property, O4 repetition.
"""

import copy
import os
import random as _random
import sys
import traceback

from sim import env, rng  # noqa: E402

import numpy as np

from sim.runner import Outcome

PROP = "C16"

H = [2.5, 0.0]
HC = [1.5, 0.7]

# profile -> (mode, operator spec list, test kinds, trial kinds)
PROFILES = [
    ("dense", [{"family": "laplace", "op": "single_layer"}], ["DP0", "P1", "DP1"], ["DP0", "P1"]),
    ("dense", [{"family": "laplace", "op": "double_layer"}, {"family": "laplace", "op": "adjoint_double_layer"}], ["P1", "DP0"], ["P1", "DP1"]),
    ("dense", [{"family": "laplace", "op": "hypersingular"}], ["P1", "DP1"], ["P1", "DP1"]),
    ("dense", [{"family": "helmholtz", "op": "single_layer", "wavenumber": HC}, {"family": "helmholtz", "op": "double_layer", "wavenumber": H}], ["P1", "DP0"], ["P1", "DP0"]),
    ("dense", [{"family": "helmholtz", "op": "hypersingular", "wavenumber": H}], ["P1"], ["P1", "DP1"]),
    ("dense", [{"family": "modified_helmholtz", "op": "hypersingular", "wavenumber": 1.3}, {"family": "modified_helmholtz", "op": "single_layer", "wavenumber": 1.3}], ["P1"], ["P1"]),
    ("dense", [{"family": "maxwell", "op": "electric_field", "wavenumber": H}], ["SNC"], ["RWG"]),
    ("dense", [{"family": "maxwell", "op": "magnetic_field", "wavenumber": HC}], ["SNC"], ["RWG"]),
    ("sparse", [{"family": "sparse", "op": "identity"}, {"family": "sparse", "op": "laplace_beltrami"}], ["P1", "DP0", "DP1", "DUAL0", "DUAL1"], ["P1", "DP0", "DP1", "DUAL0", "DUAL1"]),
    ("sparse", [{"family": "sparse", "op": "identity"}], ["SNC", "RBC"], ["RWG", "BC"]),
    ("singular", [{"family": "laplace", "op": "single_layer"}, {"family": "helmholtz", "op": "hypersingular", "wavenumber": H}, {"family": "laplace", "op": "hypersingular"}, {"family": "modified_helmholtz", "op": "hypersingular", "wavenumber": 0.9}], ["P1", "DUAL1"], ["P1", "DUAL1"]),
    ("singular", [{"family": "maxwell", "op": "electric_field", "wavenumber": H}, {"family": "maxwell", "op": "magnetic_field", "wavenumber": H}], ["SNC", "RBC"], ["RWG", "BC"]),
    ("potential", [{"family": "laplace", "op": "single_layer"}, {"family": "helmholtz", "op": "double_layer", "wavenumber": HC}, {"family": "modified_helmholtz", "op": "single_layer", "wavenumber": 1.1}], ["P1", "DP0", "DUAL0"], ["P1", "DP0", "DUAL0"]),
    ("potential", [{"family": "maxwell", "op": "electric_field", "wavenumber": H}, {"family": "maxwell", "op": "magnetic_field", "wavenumber": H}], ["RWG", "BC"], ["RWG", "BC"]),
    ("far_field", [{"family": "maxwell", "op": "electric_field", "wavenumber": H}, {"family": "maxwell", "op": "magnetic_field", "wavenumber": H}, {"family": "helmholtz", "op": "single_layer", "wavenumber": H}], ["RWG"], ["RWG"]),
    ("fmm", [{"family": "laplace", "op": "single_layer"}, {"family": "helmholtz", "op": "single_layer", "wavenumber": H}, {"family": "modified_helmholtz", "op": "single_layer", "wavenumber": 1.3}], ["P1", "DP0"], ["P1", "DP0"]),
]

GRID_FAMILIES = ["tetrahedron", "octahedron", "cube", "screen2", "lshape", "torus", "fan", "two_tetrahedra", "screen1", "pinched", "moebius", "bicone12"]
# grids used only for the (cheap) colouring oracle: also meshes with a vertex of very high valence
COLOUR_ONLY_FAMILIES = GRID_FAMILIES + ["bicone40", "bicone70", "bicone40"]
ALL_KINDS = ["DP0", "DP1", "P1", "RWG", "SNC", "DUAL0", "DUAL1", "BC", "RBC"]


def check_colouring(space, out, label):
    """O2: any two support elements with a common live global dof have different colours,
    and get_elements_by_color() never batches two such elements."""
    l2g = np.asarray(space.local2global)
    mult = np.asarray(space.local_multipliers)
    cmap = np.asarray(space.color_map)
    support = [int(e) for e in space.support_elements]
    owners = {}
    for e in support:
        for loc in range(l2g.shape[1]):
            if mult[e, loc] == 0:
                continue
            owners.setdefault(int(l2g[e, loc]), set()).add(e)
    out.probe("spaces_colour_checked")
    if len(set(int(cmap[e]) for e in support)) > 1:
        out.probe("colours>1")
    if np.any(mult[support] == 0) if len(support) else False:
        out.probe("zero_multiplier_dof_present")
    shared_pairs = 0
    for d, els in sorted(owners.items()):
        els = sorted(els)
        for i in range(len(els)):
            for j in range(i + 1, len(els)):
                shared_pairs += 1
                if cmap[els[i]] == cmap[els[j]]:
                    out.violate("colouring_shares_dof", space=label, elements=[els[i], els[j]], dof=d,
                                colour=int(cmap[els[i]]))
                    return False
    if shared_pairs:
        out.probe("element_pairs_sharing_a_dof", shared_pairs)
    sorted_indices, indexptr = space.get_elements_by_color()
    batch_of = {}
    for c in range(len(indexptr) - 1):
        for e in sorted_indices[int(indexptr[c]) : int(indexptr[c + 1])]:
            batch_of[int(e)] = c
    for d, els in sorted(owners.items()):
        els = sorted(e for e in els if e in batch_of)
        seen = {}
        for e in els:
            b = batch_of[e]
            if b in seen:
                out.violate("batch_shares_global_dof", space=label, elements=[seen[b], e], dof=d, kernel="get_elements_by_color")
                return False
            seen[b] = e
    return True


class C16Check(object):
    prop = PROP
    rule = (
        "run r draws (profile r%16: assembly path and operator family; grid family, refinement, renumbering, vertex "
        "rotation; test/trial space kinds with segments, support_elements, boundary-dof options, swapped normals; "
        "quadrature orders; worker counts, iteration assignments and pre-emption policies) from sha256(seed:C16:r) and "
        "assembles through the public API with every prange region executed by the simulator under several schedules. "
        "Non-trivial: at least one region with >= 2 iterations was explored under >= 1 non-serial schedule; distinct = "
        "distinct event-log digests."
    )
    step_unit = "scheduling points (loads/stores of shared written arrays and iteration boundaries)"
    state_measure = "distinct (kernel, schedule kind, switch-trace digest) triples"
    not_injected = [
        "message loss/duplication/reordering, partitions, clock skew, crash/restart, disk faults: no anchored code has a "
        "network, timer, durable state or recovery path",
        "torn 16-byte complex stores (need a race, which O1/O3 already report)",
    ]
    components = {
        "real": [
            "operator factories, AssemblerInterface, dense/sparse/singular/potential/FMM assemblers, colour loop in "
            "numba_assemblers.dense_assembler, FunctionSpace colouring and dof maps, Grid (all unchanged)",
            "source of every parallel=True kernel body (interpreted by CPython after closure conversion)",
            "inner jitted helpers called from the bodies (compiled Numba code)",
        ],
        "stub": [
            "Numba parfor runtime / OpenMP: worker count, iteration assignment and interleaving are decided by sim/sched.py",
            "exafmm extension (only in the fmm profile) -> /verif/fakes/exafmm",
        ],
        "bypassed": ["LLVM code generation of the outer kernels (covered by the real-thread cross-check, see evidence key real_thread_crosscheck)"],
    }
    assumptions = [
        "closure conversion reproduces Numba's prange data sharing (private = first assigned in the body); kernels the "
        "converter cannot represent are refused (harness error), not approximated",
        "load and store of a shared cell are the only points where interleaving can matter; complex stores are atomic",
        "grids of at most ~50 elements and quadrature orders <= 3: the race structure depends on dof maps and colouring, not on size",
    ]

    def __init__(self):
        self.tier = getattr(type(self), "default_tier", "quick")
        self.worker_index = 0
        self.nworkers = 1

    # ---------------------------------------------------------------- generation
    def generate(self, seed, run):
        from workloads import grids, spaces

        r = rng.stream(seed, PROP, run, "input")
        pi = run % len(PROFILES)
        mode, specs, test_kinds, trial_kinds = PROFILES[pi]
        spec = copy.deepcopy(r.choice(specs))
        gfam = r.choice(GRID_FAMILIES)
        refinements = 1 if (gfam in ("tetrahedron", "screen1", "fan", "lshape") and r.random() < 0.4) else 0
        if self.tier == "thorough" and gfam in ("octahedron", "cube") and r.random() < 0.15:
            refinements = 1
        g1 = {"family": gfam, "refinements": refinements, "tseed": r.randrange(1 << 30), "renumber": r.random() < 0.7,
              "rotate": r.random() < 0.7, "affine": False}
        case = {"profile": pi, "mode": mode, "op": spec, "grid": g1}
        raw1 = self._raw(g1)
        two = mode == "dense" and r.random() < 0.2
        if two:
            g2 = {"family": r.choice(["tetrahedron", "octahedron", "screen1", "lshape"]), "refinements": 0,
                  "tseed": r.randrange(1 << 30), "renumber": True, "rotate": True, "affine": False, "shift": [15.0, 1.0, -0.5]}
            case["grid2"] = g2
            raw2 = self._raw(g2)
        else:
            raw2 = raw1
        if spec["family"] == "sparse" and spec["op"] == "laplace_beltrami":
            test_kinds = trial_kinds = ["P1"]
        tk = r.choice(test_kinds)
        dk = r.choice(trial_kinds)
        if mode == "sparse" and spec["op"] == "identity" and tk in ("SNC", "RBC"):
            pass
        case["trial"] = spaces.random_spec(r, raw1, [dk], p_restrict=0.55)
        if not two and r.random() < 0.35 and tk == dk:
            case["test"] = dict(case["trial"])
        else:
            case["test"] = spaces.random_spec(r, raw2, [tk], p_restrict=0.55)
        # extra spaces whose colouring is checked although they are not assembled
        case["extra_spaces"] = [spaces.random_spec(r, raw1, [r.choice(ALL_KINDS)], p_restrict=0.6) for _ in range(2)]
        # spaces on ONE grid that agree in kind and support but differ in their dof map (boundary-dof options),
        # created one after the other: a colouring must belong to the space, not to (grid, kind, support)
        twins = []
        for base in (case["trial"], case["test"]) + tuple(case["extra_spaces"]):
            if base["kind"] not in spaces.EDGE_OPTIONS:
                continue
            t = dict(base)
            t["include_boundary_dofs"] = not bool(base.get("include_boundary_dofs", False))
            if r.random() < 0.4:
                t["truncate_at_segment_edge"] = not bool(base.get("truncate_at_segment_edge", True))
            pair = [t, dict(base)] if r.random() < 0.5 else [dict(base), t]
            twins.append(pair)
        case["twins"] = twins[:3]
        case["bary_direct"] = [k for k in ("DP0", "P1", "RWG", "SNC") if r.random() < 0.35]
        # O2 is cheap: sample the colouring sentence on further (also larger) grids and every space kind
        extra = []
        for _ in range(2 if self.tier == "quick" else 4):
            fam = r.choice(COLOUR_ONLY_FAMILIES)
            ref = r.choice([0, 1, 1, 2]) if fam in ("tetrahedron", "octahedron", "screen1", "fan", "lshape", "cube") else r.choice([0, 1])
            if fam.startswith("bicone") and fam != "bicone12":
                ref = 0
            g = {"family": fam, "refinements": ref, "tseed": r.randrange(1 << 30), "renumber": r.random() < 0.8,
                 "rotate": r.random() < 0.8, "affine": False}
            rawx = self._raw(g)
            extra.append({"grid": g, "spaces": [spaces.random_spec(r, rawx, [r.choice(ALL_KINDS)], p_restrict=0.7) for _ in range(3)]})
        case["extra_grids"] = extra
        case["params"] = {
            "quadrature.regular": r.choice([1, 2, 2, 3]),
            "quadrature.singular": r.choice([1, 2, 2, 3]),
            "fmm.near_field_representation": r.choice(["evaluate", "sparse"]),
            "fmm.dense_evaluation": r.random() < 0.5,
        }
        case["npoints"] = r.choice([2, 3, 5, 9, 20])
        case["vseed"] = r.randrange(1 << 30)
        case["repeat"] = r.random() < 0.3
        quick = self.tier == "quick"
        wc = [1 + r.randrange(1), 2, 7, 16]
        extra = r.randint(3, 12)
        case["sim"] = {
            "seed": r.randrange(1 << 30),
            "worker_counts": (r.sample([2, 7, 16], 2) + [extra]) if quick else [2, 7, 16, extra],
            "K": 3 if quick else r.choice([8, 12, 16]),
            "policies": ["random", "pct", "stall"],
            "max_directed": 4 if quick else 8,
        }
        _ = wc
        return case

    @staticmethod
    def _raw(g):
        from workloads import grids

        return grids.make_raw(g["family"], g.get("refinements", 0), _random.Random(g.get("tseed", 0)),
                              g.get("renumber", False), g.get("rotate", False), g.get("affine", False), g.get("shift"))

    # ---------------------------------------------------------------- execution
    def execute(self, case):
        from sim import parsim

        if "crosscheck_case" in case:
            return self._execute_crosscheck(case)
        out = Outcome()
        env.reset_process_state("c16")
        sim = parsim.Sim(case["sim"]["seed"], case["sim"], out)
        sim.install()
        try:
            self._execute(case, out, sim)
        finally:
            sim.uninstall()
            env.reset_process_state("c16")
        nonserial = out.probes.get("schedules_run", 0)
        out.nontrivial = nonserial > 0
        out.info["regions"] = len(sim.records)
        return out

    def _execute_crosscheck(self, case):
        """Replay of a real-thread cross-check configuration (runs the subprocess again)."""
        import json
        import subprocess

        out = Outcome()
        script = os.path.join(env.VERIF_ROOT, "checks", "c16_crosscheck.py")
        envv = dict(os.environ)
        envv.pop("NUMBA_NUM_THREADS", None)
        p = subprocess.run([sys.executable, script, str(case["crosscheck_case"])], capture_output=True, text=True, env=envv,
                           cwd=env.VERIF_ROOT, timeout=1500)
        line = [ln for ln in p.stdout.splitlines() if ln.startswith("CROSSCHECK ")]
        if not line:
            raise RuntimeError("crosscheck failed: " + p.stderr[-800:])
        row = json.loads(line[0][len("CROSSCHECK "):])
        out.events.append(["crosscheck", row["label"], row["bitwise_equal_across_threads"]])
        if not row["bitwise_equal_across_threads"]:
            out.violate("real_threads_change_result", kernel=row["label"], thread_digests=row["thread_digests"])
        return out

    def _execute(self, case, out, sim):
        import bempp_cl.api
        from workloads import grids, spaces, ops
        from checks import common

        vec = dict(env.DEFAULT_VECTOR)
        vec.update(case["params"])
        env.write_params(bempp_cl.api.GLOBAL_PARAMETERS, vec)
        mode = case["mode"]
        spec = case["op"]
        raw1 = self._raw(case["grid"])
        grid1 = grids.to_grid(raw1)
        two = "grid2" in case
        grid2 = grids.to_grid(self._raw(case["grid2"])) if two else grid1
        if two:
            out.probe("two_grids")
        label = ops.op_label(spec)

        def mk(grid, sp, name):
            try:
                s = spaces.make_space(grid, sp)
            except Exception as e:  # noqa: BLE001
                out.probe("space_rejected")
                out.events.append(["space_rejected", name, type(e).__name__])
                return None
            if s.number_of_support_elements == 0 or s.global_dof_count == 0:
                out.probe("empty_space")
                return None
            return s

        # O2 on every space of the workload, assembled or not
        for i, sp in enumerate(case.get("extra_spaces", [])):
            s = mk(grid1, sp, "extra%d" % i)
            if s is not None:
                self._colour(s, out, "extra%d:%s" % (i, sp["kind"]), sp)
        for j, eg in enumerate(case.get("extra_grids", [])):
            gx = grids.to_grid(self._raw(eg["grid"]))
            for i, sp in enumerate(eg["spaces"]):
                s = mk(gx, sp, "xg%d.%d" % (j, i))
                if s is not None:
                    out.probe("extra_grid_spaces_coloured")
                    if gx.number_of_elements > 60:
                        out.probe("coloured_space_on_grid_over_60_elements")
                    self._colour(s, out, "xg%d.%d:%s" % (j, i, sp["kind"]), sp)
        for j, pair in enumerate(case.get("twins", [])):
            for i, sp in enumerate(pair):
                s = mk(grid1, sp, "twin%d.%d" % (j, i))
                if s is not None:
                    out.probe("twin_spaces_coloured")
                    self._colour(s, out, "twin%d.%d:%s" % (j, i, sp["kind"]), sp)
        # a barycentric kind the grid does not support (e.g. BC on a non-manifold mesh) falls back to its
        # primal counterpart, so that the run still exercises the profile's kernels
        fallback = {"BC": "RWG", "RBC": "SNC", "DUAL0": "DP0", "DUAL1": "P1"}

        def mk_fb(grid, sp, name):
            s_ = mk(grid, sp, name)
            if s_ is None and sp["kind"] in fallback:
                sp2 = dict(sp, kind=fallback[sp["kind"]])
                s_ = mk(grid, sp2, name + "(fallback)")
                if s_ is not None:
                    out.probe("space_kind_fallback")
                    sp.clear()
                    sp.update(sp2)
            return s_

        same_spec = (not two) and case["test"] == case["trial"]
        trial = mk_fb(grid1, case["trial"], "trial")
        if trial is None:
            return
        test = trial if same_spec else mk_fb(grid2, case["test"], "test")
        if test is None:
            return
        self._colour(trial, out, "trial:" + case["trial"]["kind"], case["trial"])
        if test is not trial:
            self._colour(test, out, "test:" + case["test"]["kind"], case["test"])
        # genuine spaces created directly on the barycentric refinement, after barycentric representations
        # of coarse spaces on it have been coloured
        if case.get("bary_direct"):
            try:
                bgrid = grid1.barycentric_refinement
            except Exception:  # noqa: BLE001
                bgrid = None
            if bgrid is not None:
                for kind in case["bary_direct"]:
                    s = mk(bgrid, {"kind": kind}, "bary_direct:" + kind)
                    if s is not None:
                        out.probe("spaces_on_barycentric_grid_coloured")
                        check_colouring(s, out, "bary_direct:" + kind)

        def assemble():
            if mode in ("dense", "sparse", "singular"):
                assembler = {"dense": "dense", "sparse": None, "singular": "only_singular_part"}[mode]
                op = ops.build_boundary(spec, trial, trial, test, assembler)
                wf = op.weak_form()
                return np.asarray(wf.to_dense())
            if mode == "fmm":
                op = ops.build_boundary(spec, trial, trial, test, "fmm")
                wf = op.weak_form()
                x = common.seeded_vector(trial.global_dof_count, case["vseed"], False)
                return np.asarray(wf @ x)
            points = ops.probe_points(case["npoints"], raw1)
            x = common.seeded_vector(trial.global_dof_count, case["vseed"], spec["family"] != "laplace")
            fun = bempp_cl.api.GridFunction(trial, coefficients=x)
            if mode == "potential":
                return np.asarray(ops.build_potential(spec, trial, points, "dense").evaluate(fun))
            if mode == "far_field":
                pts = points / np.linalg.norm(points, axis=0)
                return np.asarray(ops.build_far_field(spec, trial, pts).evaluate(fun))
            raise ValueError(mode)

        from sim.sched import SimError
        from sim.kernel_transform import TransformError

        try:
            first = assemble()
        except (SimError, TransformError):
            raise
        except Exception as e:  # noqa: BLE001
            # the library rejects the configuration (e.g. dense assembly of a barycentric space): nothing to schedule
            out.probe("assembly_rejected")
            out.events.append(["assembly_rejected", label, type(e).__name__, str(e)[:100]])
            if not isinstance(e, (ValueError, NotImplementedError)):
                out.events.append(["unexpected", traceback.format_exc(limit=4)[-600:]])
                raise
            return
        out.events.append(["assembled", label, mode, list(first.shape), rng.array_digest(np.round(np.asarray(first, dtype=np.complex128), 9) + 0.0)])
        if np.iscomplexobj(first):
            out.probe("complex_result")
        for nm, sp in (("trial", case["trial"]), ("test", case["test"])):
            if "segments" in sp or "support_elements" in sp:
                out.probe("segment_space")
            if sp.get("truncate_at_segment_edge") is False:
                out.probe("extended_support")
        if case.get("repeat"):
            # O4: another operator on the same spaces in between, then the same assembly again
            try:
                other = ops.build_boundary({"family": "sparse", "op": "identity"}, trial, trial, trial, None)
                other.weak_form()
            except Exception:  # noqa: BLE001
                pass
            sim.seed = sim.seed + 1
            second = assemble()
            out.probe("repeated_assembly")
            same = first.tobytes() == second.tobytes()
            out.events.append(["repeat", label, bool(same)])
            if not same:
                out.violate("repeated_assembly_differs", op=label, mode=mode)
        out.sample = {
            "op": label,
            "mode": mode,
            "grid": case["grid"]["family"],
            "test": case["test"],
            "trial": case["trial"],
            "regions": [
                {"kernel": rec["kernel"], "iterations": rec["n"], "candidates": rec["candidates"],
                 "schedules": [s[0] + (":sw=%d" % s[1]) for s in rec["schedules"]][:6]}
                for rec in sim.records[:4]
            ],
        }

    def _colour(self, space, out, label, spec):
        check_colouring(space, out, label)
        try:
            bary = space.barycentric_representation() if not space.is_barycentric else None
        except Exception:  # noqa: BLE001
            bary = None
        if bary is not None and bary is not space:
            out.probe("barycentric_representation_coloured")
            check_colouring(bary, out, label + "/barycentric")
        loc = space.localised_space
        if loc is not space:
            check_colouring(loc, out, label + "/localised")

    # ---------------------------------------------------------------- classification / minimisation
    def extra_evidence(self):
        from sim import kernel_transform as kt

        found = ["%s.%s" % (m, n) for m, n, _ in kt.discover_parallel_kernels()]
        return {"parallel_kernels_discovered": found, "parallel_kernels_discovered_count": len(found)}

    def signature(self, case, v):
        return {"kind": v.get("kind"), "kernel": v.get("kernel"), "mode": case.get("mode"),
                "family": case.get("op", {}).get("family"), "space": v.get("space")}

    def minimise(self, case, violation):
        kind = violation["kind"]

        def still(c):
            try:
                oc = self.execute(c)
            except Exception:  # noqa: BLE001
                return None
            for v in oc.violations:
                if v["kind"] == kind and v.get("kernel") == violation.get("kernel"):
                    return v
            return None

        cur = copy.deepcopy(case)
        steps = [
            lambda c: c.update(repeat=False),
            lambda c: c.update(extra_spaces=[]),
            lambda c: c.update(extra_grids=[]),
            lambda c: c.update(bary_direct=[]),
            lambda c: c.update(twins=[]),
            lambda c: c.update(twins=c.get("twins", [])[:1]),
            lambda c: c["grid"].update(renumber=False, rotate=False),
            lambda c: c["grid"].update(refinements=0),
            lambda c: c.pop("grid2", None),
            lambda c: c["params"].update({"quadrature.regular": 1, "quadrature.singular": 1}),
            lambda c: [c[k].pop("swapped_normals", None) for k in ("test", "trial")],
            lambda c: c.__setitem__("test", dict(c["trial"])),
            lambda c: [c[k].pop("support_elements", None) for k in ("test", "trial")],
            lambda c: [c[k].pop("segments", None) for k in ("test", "trial")],
            lambda c: [(c[k].pop("include_boundary_dofs", None), c[k].pop("truncate_at_segment_edge", None)) for k in ("test", "trial")],
            lambda c: c["grid"].update(family="octahedron"),
            lambda c: c["grid"].update(family="tetrahedron"),
        ]
        last = violation
        for step in steps:
            cand = copy.deepcopy(cur)
            try:
                step(cand)
            except Exception:  # noqa: BLE001
                continue
            if cand == cur:
                continue
            v = still(cand)
            if v is not None:
                cur = cand
                last = v
        # pin the schedule: replay only the failing schedule of the failing region
        if last.get("kind") == "schedule_changes_result":
            pinned = copy.deepcopy(cur)
            pinned["sim"]["replay_plan"] = {str(last["region"]): [last["schedule"]]}
            v = still(pinned)
            if v is not None:
                cur = pinned
        return cur


def factory():
    return C16Check()


def main(argv=None):
    import argparse

    from sim import runner

    ap = argparse.ArgumentParser()
    ap.add_argument("--tier", default=os.environ.get("VERIF_TIER", "quick"))
    ap.add_argument("--runs", type=int, default=None)
    ap.add_argument("--workers", type=int, default=None)
    ap.add_argument("--replay", default=None)
    ap.add_argument("--digests", default=None, help="determinism aid: print run digests for the given runs, e.g. 0-15")
    ap.add_argument("--repeat", type=int, default=1)
    ap.add_argument("--no-crosscheck", action="store_true")
    args = ap.parse_args(argv)
    if args.replay:
        args.replay = os.path.abspath(args.replay)
    env.bootstrap(threads=1)
    C16Check.default_tier = args.tier
    if args.replay:
        return runner.replay(factory(), args.replay)
    if args.digests:
        chk = factory()
        chk.tier = args.tier
        return runner.print_digests(chk, runner.parse_runs(args.digests), args.repeat)
    runs = args.runs if args.runs is not None else (192 if args.tier == "quick" else 6000)
    finalize = None
    if not args.no_crosscheck:
        finalize = start_crosscheck(args.tier, runs)
    return runner.run(factory, PROP, args.tier, runs, nworkers=args.workers, finalize=finalize, affinity=False)


def start_crosscheck(tier, runs):
    """Launch the real-thread cross-check (checks/c16_crosscheck.py) in subprocesses; return a collector."""
    import json
    import subprocess

    from checks import c16_crosscheck

    seed = rng.base_seed()
    ncases = len(c16_crosscheck.CASES)
    count = 6 if tier == "quick" else ncases
    # always one dense, one potential (few evaluation points) and one sparse case; the rest rotate with the seed
    picks = [0, 5, 4] + [(seed * 7 + 5 * j + 1) % ncases for j in range(ncases)]
    uniq = []
    for x in picks:
        if x not in uniq:
            uniq.append(x)
    picks = sorted(uniq[:count])
    script = os.path.join(env.VERIF_ROOT, "checks", "c16_crosscheck.py")
    procs = []
    envv = dict(os.environ)
    envv.pop("NUMBA_NUM_THREADS", None)
    for i in picks:
        procs.append((i, subprocess.Popen([sys.executable, script, str(i)], stdout=subprocess.PIPE,
                                          stderr=subprocess.PIPE, text=True, env=envv, cwd=env.VERIF_ROOT)))

    def collect():
        rows = []
        errors = []
        extra_results = []
        for i, p in procs:
            try:
                so, se = p.communicate(timeout=1500)
            except subprocess.TimeoutExpired:
                p.kill()
                errors.append("crosscheck case %d timed out" % i)
                continue
            line = [ln for ln in so.splitlines() if ln.startswith("CROSSCHECK ")]
            if p.returncode != 0 or not line:
                errors.append("crosscheck case %d failed (exit %s): %s" % (i, p.returncode, se[-1500:]))
                continue
            row = json.loads(line[0][len("CROSSCHECK "):])
            rows.append(row)
            viol = []
            if not row["bitwise_equal_across_threads"]:
                viol.append({"kind": "real_threads_change_result", "kernel": row["label"], "thread_digests": row["thread_digests"]})
            if not row["interpreted_agrees"]:
                errors.append("crosscheck case %d: interpreted kernels disagree with compiled ones (rel %.3g): the "
                              "closure conversion misrepresents %s" % (i, row["interpreted_vs_compiled_rel"], row["label"]))
            if viol:
                extra_results.append({
                    "run": 10**6 + i, "violations": viol, "digest": "crosscheck-%d" % i, "probes": {}, "faults": {},
                    "steps": 0, "nontrivial": False, "state_keys": [], "sample": None, "info": {},
                    "case": {"crosscheck_case": i, "config": c16_crosscheck.CASES[i]}, "wall_s": 0.0,
                })
        extra = {
            "real_thread_crosscheck": {
                "what": "real compiled kernels under numba.set_num_threads(1,2,7,16), two repetitions each, bitwise "
                        "comparison; plus interpreted-vs-compiled agreement (validates the closure conversion). "
                        "Observation of real executions: model validation, not the deciding step.",
                "cases": len(rows),
                "all_bitwise_equal": all(r["bitwise_equal_across_threads"] for r in rows) if rows else None,
                "all_interpreted_agree": all(r["interpreted_agrees"] for r in rows) if rows else None,
                "max_interpreted_vs_compiled_rel": max([r["interpreted_vs_compiled_rel"] for r in rows] or [0.0]),
                "rows": [{k: r[k] for k in ("case", "label", "mode", "elements", "regions", "bitwise_equal_across_threads", "interpreted_vs_compiled_rel")} for r in rows],
            }
        }
        return extra, extra_results, errors

    return collect


if __name__ == "__main__":
    sys.exit(main())
