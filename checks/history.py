"""History engine: executes a generated sequence of API calls against the real library inside
one process, together with a reference model of "what a fresh process computes".

The engine is shared by C18 (oracle: same operation in a fresh process) and by the history
profile of C17 (oracle: dense counterpart in a fresh process).

An op refers to objects by pool index modulo pool size, so that any subsequence of a history is
executable (the minimiser relies on it).  An op whose pool is empty is skipped.
"""

import copy
import json
import traceback

import numpy as np

from sim import env, rng
from checks import common


class Rec(object):
    """Bookkeeping for one object created by the history."""

    def __init__(self, **kw):
        self.__dict__.update(kw)


def canonical(obj):
    return json.dumps(obj, sort_keys=True, default=rng._default)


class ModelCache(object):
    """Memo of fresh-process values, keyed by explicit specification + captured vector."""

    def __init__(self, limit=400):
        self.d = {}
        self.limit = limit
        self.hits = 0
        self.misses = 0

    def get(self, key, compute):
        if key in self.d:
            self.hits += 1
            return self.d[key]
        self.misses += 1
        val = compute()
        if len(self.d) >= self.limit:
            self.d.pop(next(iter(self.d)))
        self.d[key] = val
        return val


MODEL_CACHE = ModelCache()


class _PeerFault(object):
    def __repr__(self):
        return "PEER_FAULT"


PEER_FAULT = _PeerFault()


class Failure(object):
    """A model or history computation that raised."""

    def __init__(self, exc):
        self.exc_class = type(exc).__name__
        self.msg = str(exc)[:300]
        self.tb = traceback.format_exc(limit=8)[-1800:]


def _is_peer_fault(e):
    import exafmm

    while e is not None:
        if isinstance(e, exafmm.PeerFault):
            return True
        e = e.__cause__ or e.__context__
    return False


class Engine(object):
    def __init__(self, case, out, oracle="fresh_same"):
        self.case = case
        self.out = out
        self.oracle = oracle
        self.raw = []
        self.grids = []
        self.spaces = []
        self.ops = []
        self.pots = []
        self.params = []
        self.pending_fault = False
        self.fault_seen = False
        self.model_requests = []

    # ------------------------------------------------------------------ helpers
    def _raw(self, g):
        import random

        from workloads import grids

        return grids.make_raw(
            g["family"],
            g.get("refinements", 0),
            random.Random(g.get("tseed", 0)),
            g.get("renumber", False),
            g.get("rotate", False),
            g.get("affine", False),
            g.get("shift"),
        )

    def pick(self, pool, idx):
        if not pool:
            return None
        return pool[idx % len(pool)]

    def event(self, *e):
        self.out.events.append(list(e))

    def violate(self, kind, **kw):
        kw.setdefault("step", self.step)
        self.out.violate(kind, **kw)

    def global_vector(self):
        """The values the clients have put into GLOBAL_PARAMETERS so far (what they are entitled to expect)."""
        return dict(self.expected_global)

    def resolved_vector(self, params_index):
        """Values of the parameter object an operation resolves to: what its owner assigned to it."""
        if params_index is None:
            return self.global_vector()
        return dict(self.params[params_index % len(self.params)]["vector"])

    def check_parameter_objects(self, where):
        """Parameter objects only change when a client assigns to them: the global object must hold exactly
        the values set through set_global, an explicit object exactly the values it was created with."""
        import bempp_cl.api

        if self.param_alias_reported:
            return
        actual = env.read_params(bempp_cl.api.GLOBAL_PARAMETERS)
        if actual != self.expected_global:
            diff = {k: [self.expected_global[k], actual[k]] for k in actual if actual[k] != self.expected_global[k]}
            self.param_alias_reported = True
            self.violate("parameter_object_changed_without_assignment", which="GLOBAL_PARAMETERS", where=where,
                         expected_vs_actual=diff, flags={"assembler": None, "family": "parameters"})
            return
        for k, p in enumerate(self.params):
            actual = env.read_params(p["obj"])
            if actual != p["vector"]:
                diff = {f: [p["vector"][f], actual[f]] for f in actual if actual[f] != p["vector"][f]}
                self.param_alias_reported = True
                self.violate("parameter_object_changed_without_assignment", which="explicit parameter object %d" % k,
                             where=where, expected_vs_actual=diff, flags={"assembler": None, "family": "parameters"})
                return

    # ------------------------------------------------------------------ model side
    def _fresh_spaces(self, space_recs):
        """Brand-new grid and space objects for the given space records (shared grids stay shared)."""
        from workloads import grids, spaces

        made_grids = {}
        made_spaces = {}
        out = []
        for sr in space_recs:
            if id(sr) in made_spaces:
                out.append(made_spaces[id(sr)])
                continue
            gi = sr.grid_index
            if gi not in made_grids:
                made_grids[gi] = grids.to_grid(self.raw[gi])
            sp = spaces.make_space(made_grids[gi], sr.spec)
            made_spaces[id(sr)] = sp
            out.append(sp)
        return out

    def model_weak(self, rec, vector, assembler=None, precision="same"):
        """Matrix a fresh process computes for this operator with `vector` set globally."""
        from workloads import ops

        assembler = rec.assembler if assembler is None else assembler
        prec = rec.precision if precision == "same" else precision
        key = canonical(
            ["weak", rec.spec, rec.dom.spec, rec.dual.spec, rec.dom.grid_index, rec.dual.grid_index,
             rec.dom is rec.dual, self.case["grids"], assembler, prec, vector]
        )

        def compute():
            try:
                with env.fresh_process(vector):
                    if rec.dom is rec.dual:
                        (dom,) = self._fresh_spaces([rec.dom])
                        dual = dom
                    else:
                        dom, dual = self._fresh_spaces([rec.dom, rec.dual])
                    if assembler == "dense_counterpart":
                        mat, _ = common.dense_counterpart_matrix(rec.spec, dom, dual, None, prec)
                        return np.asarray(mat)
                    op = ops.build_boundary(rec.spec, dom, dom, dual, assembler, None, prec)
                    return np.asarray(op.weak_form().to_dense())
            except Exception as e:  # noqa: BLE001
                return Failure(e)

        val = MODEL_CACHE.get(key, compute)
        if assembler != "dense_counterpart" and not isinstance(val, Failure) and len(self.model_requests) < 4:
            from workloads import grids as _grids

            self.model_requests.append((
                {
                    "kind": "weak",
                    "grids": [_grids.raw_to_json(r) for r in self.raw],
                    "dom": {"grid_index": rec.dom.grid_index, "spec": rec.dom.spec},
                    "dual": {"grid_index": rec.dual.grid_index, "spec": rec.dual.spec},
                    "same": rec.dom is rec.dual,
                    "spec": rec.spec,
                    "assembler": assembler,
                    "precision": prec,
                    "vector": dict(vector),
                },
                val,
            ))
        return val

    def model_strong(self, rec, vector, gvec):
        """Strong form a fresh process computes: weak form under `vector`, range map under `gvec`."""
        import bempp_cl.api
        from workloads import ops

        assembler = rec.assembler
        if self.oracle == "fresh_dense" and assembler == "fmm":
            # dense counterpart of the weak form (also for spaces the dense assembler rejects), range map from
            # the library in a fresh process
            w = self.model_weak(rec, vector, assembler="dense_counterpart")
            if isinstance(w, Failure):
                return w
            key = canonical(["strong_dense", rec.spec, rec.dom.spec, rec.dual.spec, rec.dom.grid_index,
                             rec.dual.grid_index, rec.dom is rec.dual, self.case["grids"], rec.precision, vector, gvec])

            def compute_dense():
                try:
                    with env.fresh_process(gvec):
                        from bempp_cl.api.assembly.discrete_boundary_operator import DenseDiscreteBoundaryOperator
                        from bempp_cl.api.utils.helpers import get_inverse_mass_matrix

                        if rec.dom is rec.dual:
                            (dom,) = self._fresh_spaces([rec.dom])
                            dual = dom
                        else:
                            dom, dual = self._fresh_spaces([rec.dom, rec.dual])
                        inv = get_inverse_mass_matrix(dom, dual)
                        return np.asarray((inv * DenseDiscreteBoundaryOperator(np.asarray(w))).to_dense())
                except Exception as e:  # noqa: BLE001
                    return Failure(e)

            return MODEL_CACHE.get(key, compute_dense)
        key = canonical(
            ["strong", rec.spec, rec.dom.spec, rec.dual.spec, rec.dom.grid_index, rec.dual.grid_index,
             rec.dom is rec.dual, self.case["grids"], assembler, rec.precision, vector, gvec]
        )

        def compute():
            try:
                with env.fresh_process(vector):
                    if rec.dom is rec.dual:
                        (dom,) = self._fresh_spaces([rec.dom])
                        dual = dom
                    else:
                        dom, dual = self._fresh_spaces([rec.dom, rec.dual])
                    op = ops.build_boundary(rec.spec, dom, dom, dual, assembler, None, rec.precision)
                    op.weak_form()
                    env.write_params(bempp_cl.api.GLOBAL_PARAMETERS, gvec)
                    return np.asarray(op.strong_form().to_dense())
            except Exception as e:  # noqa: BLE001
                return Failure(e)

        return MODEL_CACHE.get(key, compute)

    def model_mass(self, dom_rec, dual_rec, vector):
        from workloads import ops

        key = canonical(["mass", dom_rec.spec, dual_rec.spec, dom_rec.grid_index, dual_rec.grid_index,
                         dom_rec is dual_rec, self.case["grids"], vector])

        def compute():
            try:
                with env.fresh_process(vector):
                    if dom_rec is dual_rec:
                        (dom,) = self._fresh_spaces([dom_rec])
                        dual = dom
                    else:
                        dom, dual = self._fresh_spaces([dom_rec, dual_rec])
                    op = ops.build_boundary({"family": "sparse", "op": "identity"}, dom, dom, dual, None)
                    return np.asarray(op.weak_form().to_dense())
            except Exception as e:  # noqa: BLE001
                return Failure(e)

        return MODEL_CACHE.get(key, compute)

    def model_potential(self, rec, vector, coeffs_seed, complex_, assembler=None):
        import bempp_cl.api
        from workloads import ops

        assembler = rec.assembler if assembler is None else assembler
        key = canonical(["pot", rec.spec, rec.space.spec, rec.space.grid_index, self.case["grids"], assembler,
                         rec.precision, rec.npoints, vector, coeffs_seed, complex_])

        def compute():
            try:
                with env.fresh_process(vector):
                    (space,) = self._fresh_spaces([rec.space])
                    points = ops.probe_points(rec.npoints, self.raw[rec.space.grid_index])
                    pot = ops.build_potential(rec.spec, space, points, assembler, None, rec.precision)
                    x = common.seeded_vector(space.global_dof_count, coeffs_seed, complex_)
                    fun = bempp_cl.api.GridFunction(space, coefficients=x)
                    return np.asarray(pot.evaluate(fun))
            except Exception as e:  # noqa: BLE001
                return Failure(e)

        return MODEL_CACHE.get(key, compute)

    # ------------------------------------------------------------------ comparison
    def compare(self, what, label, observed, model, single=False, flags=None):
        """H1: observed value (or Failure) against the model value (or Failure)."""
        flags = flags or {}
        if isinstance(model, Failure) and isinstance(observed, Failure):
            # both fail: there is no value the property could speak about.  The exception classes may differ
            # for innocent reasons (e.g. strong_form() of a not yet assembled operator fails in the range map
            # before the weak form is touched, the two-step fresh script fails in the weak form first).
            self.event(what, label, "both_raise", model.exc_class, observed.exc_class)
            if model.exc_class != observed.exc_class:
                self.out.probe("both_raise_with_different_exception_classes")
            return
        if isinstance(observed, Failure):
            self.event(what, label, "history_raises", observed.exc_class)
            self.violate("history_raises", what=what, op=label, exc=observed.exc_class, msg=observed.msg,
                         tb=observed.tb, flags=flags)
            return
        if isinstance(model, Failure) and self.oracle == "fresh_dense" and flags.get("assembler") == "fmm":
            # the dense counterpart does not exist for this configuration: nothing to compare with
            self.event(what, label, "no_dense_counterpart", model.exc_class)
            self.out.probe("no_dense_counterpart")
            return
        if isinstance(model, Failure):
            self.event(what, label, "model_raises", model.exc_class)
            self.violate("history_succeeds_where_fresh_raises", what=what, op=label, exc=model.exc_class,
                         msg=model.msg, flags=flags)
            return
        if single:
            ok, err, scale = common.close_single(observed, model)
        else:
            ok, err, scale = common.close(observed, model)
        self.event(what, label, rng.array_digest(np.round(np.asarray(model, dtype=np.complex128), 8)), bool(ok))
        if not ok:
            self.violate("history_value_differs", what=what, op=label, err=err, scale=scale,
                         rel=(err / scale if scale else None), flags=flags)

    # ------------------------------------------------------------------ running a history
    def run(self):
        import bempp_cl.api
        import exafmm

        case = self.case
        out = self.out
        self.expected_global = dict(env.DEFAULT_VECTOR)
        self.expected_global.update(case.get("initial_globals", {}))
        self.param_alias_reported = False
        env.write_params(bempp_cl.api.GLOBAL_PARAMETERS, self.expected_global)
        peer = case.get("peer", {})
        exafmm.CONTROL.permute_seed = peer.get("permute")
        exafmm.CONTROL.chunk = peer.get("chunk", 256)
        for g in case["grids"]:
            from workloads import grids

            raw = self._raw(g)
            self.raw.append(raw)
            self.grids.append(grids.to_grid(raw))
        for vec in case.get("params_pool", []):
            full = dict(env.DEFAULT_VECTOR)
            full.update(vec)
            self.params.append({"obj": env.new_params(full), "vector": full})
        self.step = -1
        self.check_parameter_objects("after creating the explicit parameter objects")
        for i, op in enumerate(case["ops"]):
            self.step = i
            out.steps += 1
            handler = getattr(self, "op_" + op["t"])
            try:
                handler(op)
            except Exception as e:  # noqa: BLE001  (harness bug, not a property violation)
                raise RuntimeError("history engine failed at step %d (%s): %r\n%s" % (i, op.get("t"), e, traceback.format_exc()))
            self.check_parameter_objects("after step %d (%s)" % (i, op.get("t")))
            out.state_keys.append(self.abstract_state())
        self.step = len(case["ops"])
        self.final_checks()

    def abstract_state(self):
        import bempp_cl.api.fmm.fmm_assembler as fa

        mats = sorted(
            canonical([r.spec.get("family"), r.spec.get("op"), r.assembler, r.vector and r.vector.get("quadrature.regular")])
            for r in self.ops if r.vector is not None
        )
        g = self.global_vector()
        c1 = getattr(fa, "_FMM_CACHE", None)
        c2 = getattr(fa, "_FMM_POTENTIAL_CACHE", None)
        keys = sorted(repr(tuple(k)[2:]) if isinstance(k, tuple) else repr(k) for k in c1.keys()) if isinstance(c1, dict) else []
        return rng.digest([mats, g, keys, len(c2) if isinstance(c2, dict) else 0])

    # ------------------------------------------------------------------ ops
    def op_set_global(self, op):
        import bempp_cl.api

        before = self.global_vector().get(op["field"])
        env.write_params(bempp_cl.api.GLOBAL_PARAMETERS, {op["field"]: op["value"]})
        self.expected_global[op["field"]] = op["value"]
        self.event("set_global", op["field"], op["value"])
        if before != op["value"]:
            self.out.fault("F1_parameter_mutation")
            if any(r.vector is None for r in self.ops):
                self.out.probe("param_change_between_construct_and_assemble")
            if any(r.vector is not None for r in self.ops):
                self.out.probe("param_change_after_assemble")
            self.param_changed_since_fmm = True

    def op_create_space(self, op):
        from workloads import spaces

        gi = op["grid"] % len(self.grids)
        try:
            sp = spaces.make_space(self.grids[gi], op["spec"])
        except Exception as e:  # noqa: BLE001
            self.event("create_space", "rejected", type(e).__name__)
            return
        if sp.number_of_support_elements == 0 or sp.global_dof_count == 0:
            self.event("create_space", "empty")
            return
        self.spaces.append(Rec(obj=sp, spec=op["spec"], grid_index=gi, mass=None, mass_vector=None, mass_digest=None))
        self.event("create_space", gi, op["spec"]["kind"], int(sp.global_dof_count))
        if sp.number_of_support_elements < sp.grid.number_of_elements:
            self.out.probe("segment_space")

    def op_create_op(self, op):
        from workloads import ops

        dom = self.pick(self.spaces, op["dom"])
        dual = self.pick(self.spaces, op["dual"])
        if dom is None:
            self.event("create_op", "skipped")
            return
        pidx = op.get("params")
        if pidx is not None and not self.params:
            pidx = None
        pobj = None if pidx is None else self.params[pidx % len(self.params)]["obj"]
        try:
            obj = ops.build_boundary(op["spec"], dom.obj, dom.obj, dual.obj, op.get("assembler"), pobj, op.get("precision"))
        except Exception as e:  # noqa: BLE001  (incompatible spaces etc.: not created)
            self.event("create_op", "rejected", type(e).__name__)
            return
        assembler = op.get("assembler")
        if op["spec"]["family"] == "sparse":
            assembler = "sparse"
        rec = Rec(obj=obj, spec=op["spec"], dom=dom, dual=dual, assembler=assembler, precision=op.get("precision"),
                  params=pidx, vector=None, first=None, digest=None, strong_vector=None, strong_first=None, failed=0)
        self.ops.append(rec)
        self.event("create_op", ops.op_label(op["spec"]), assembler, op.get("precision"), pidx is not None)
        if pidx is not None:
            pv = self.resolved_vector(pidx)
            gv = self.global_vector()
            if any(pv[k] != gv[k] for k in ("quadrature.regular", "quadrature.singular")):
                self.out.probe("explicit_params_differ_from_global")
        if dom.grid_index != dual.grid_index:
            self.out.probe("two_grids")
        if op.get("precision") == "single":
            self.out.probe("single_precision")

    def _flags(self, rec):
        gv = self.global_vector()
        v = rec.vector or {}
        return {
            "assembler": rec.assembler,
            "family": rec.spec.get("family"),
            "opname": rec.spec.get("op"),
            "explicit_params": rec.params is not None,
            "explicit_regular_differs_from_global": bool(rec.params is not None and v.get("quadrature.regular") != gv.get("quadrature.regular")),
            "precision": rec.precision,
            "dom_kind": rec.dom.spec["kind"],
            "dual_kind": rec.dual.spec["kind"],
            "two_grids": rec.dom.grid_index != rec.dual.grid_index,
            "after_peer_fault": bool(self.fault_seen),
        }

    def _call(self, fn):
        """Run an API call; classify an injected peer fault separately."""
        import exafmm

        try:
            return fn()
        except Exception as e:  # noqa: BLE001
            if _is_peer_fault(e):
                self.out.fault("F3_peer_fault_propagated")
                self.fault_seen = True
                exafmm.CONTROL.fail_on = {}
                return PEER_FAULT
            return Failure(e)

    def _materialise(self, rec):
        """Call weak_form() (first call captures the parameter vector) and return the dense value.

        Returns (wf, value, vector, first); wf is None if weak_form() itself did not complete,
        value is None if only the observation (to_dense through the peer) hit an injected fault.
        """
        import exafmm
        from workloads import ops

        first = rec.vector is None
        vector = self.resolved_vector(rec.params) if first else rec.vector
        setups = exafmm.CONTROL.count.get("setup", 0)
        res = self._call(lambda: rec.obj.weak_form())
        if res is PEER_FAULT:
            self.event("weak_form", ops.op_label(rec.spec), "peer_fault")
            rec.failed += 1
            return None, None, vector, first
        if isinstance(res, Failure):
            return None, res, vector, first
        wf = res
        if first:
            # the operator is memoised from here on, whatever happens to our observation of it
            rec.vector = vector
            rec.first = wf
            self.out.nontrivial = True
            if rec.failed:
                self.out.probe("retry_after_peer_fault")
            if rec.assembler == "fmm":
                self.out.probe("fmm_operator_materialised")
                if exafmm.CONTROL.count.get("setup", 0) == setups:
                    self.out.probe("fmm_cache_hit")
                    if getattr(self, "param_changed_since_fmm", False):
                        self.out.probe("fmm_cache_hit_after_param_change")
                elif getattr(self, "cleared_since_fmm", False):
                    self.out.probe("clear_then_reuse")
                self.param_changed_since_fmm = False
                self.cleared_since_fmm = False
        val = self._call(lambda: np.asarray(wf.to_dense()))
        if val is PEER_FAULT:
            self.event("weak_form", ops.op_label(rec.spec), "peer_fault_in_observation")
            return wf, None, vector, first
        return wf, val, vector, first

    def op_weak_form(self, op):
        from workloads import ops

        rec = self.pick(self.ops, op["op"])
        if rec is None:
            self.event("weak_form", "skipped")
            return
        label = ops.op_label(rec.spec) + "/" + str(rec.assembler)
        wf, val, vector, first = self._materialise(rec)
        if wf is None and val is None:
            return
        if wf is None:
            # weak_form() raised: compare exception behaviour with the fresh process
            model = self.model_for(rec, vector)
            self.compare("weak_form", label, val, model, flags=self._flags_with(rec, vector))
            return
        if not first:
            self.out.probe("weak_form_called_twice")
            if wf is not rec.first:
                self.violate("weak_form_not_memoised", op=label, flags=self._flags(rec))
        if val is None:
            return
        if first and not isinstance(val, Failure):
            rec.digest = rng.array_digest(val)
        model = self.model_for(rec, rec.vector)
        self.compare("weak_form", label, val, model, single=(rec.precision == "single"), flags=self._flags(rec))
        if (
            rec.precision == "single"
            and not isinstance(model, Failure)
            and not isinstance(val, Failure)
            and self.oracle == "fresh_same"
        ):
            dbl = self.model_weak(rec, rec.vector, precision=None)
            if not isinstance(dbl, Failure):
                ok, err, scale = common.close_single(val, dbl)
                self.event("single_vs_double", label, bool(ok))
                if not ok:
                    self.violate("single_precision_inaccurate", op=label, err=err, scale=scale, flags=self._flags(rec))

    def _flags_with(self, rec, vector):
        old = rec.vector
        rec.vector = vector
        try:
            return self._flags(rec)
        finally:
            rec.vector = old

    def model_for(self, rec, vector):
        if self.oracle == "fresh_dense" and rec.assembler == "fmm":
            return self.model_weak(rec, vector, assembler="dense_counterpart")
        return self.model_weak(rec, vector)

    def op_matvec(self, op):
        from workloads import ops

        rec = self.pick(self.ops, op["op"])
        if rec is None:
            self.event("matvec", "skipped")
            return
        label = ops.op_label(rec.spec) + "/" + str(rec.assembler)
        first = rec.vector is None
        vector = self.resolved_vector(rec.params) if first else rec.vector
        res = self._call(lambda: rec.obj.weak_form())
        if res is PEER_FAULT:
            self.event("matvec", label, "peer_fault")
            rec.failed += 1
            return
        model = self.model_for(rec, vector)
        if isinstance(res, Failure):
            self.compare("matvec", label, res, model, flags=self._flags_with(rec, vector))
            return
        wf = res
        if first:
            rec.vector = vector
            rec.first = wf
            rec.digest = None
            self.out.nontrivial = True
        elif wf is not rec.first:
            self.violate("weak_form_not_memoised", op=label, flags=self._flags(rec))
        x = common.seeded_vector(wf.shape[1], op["vseed"], op.get("complex", False))
        y = self._call(lambda: np.asarray(wf @ x))
        if y is PEER_FAULT:
            self.event("matvec", label, "peer_fault_in_observation")
            return
        if isinstance(model, Failure) or isinstance(y, Failure):
            self.compare("matvec", label, y, model, flags=self._flags(rec))
            return
        self.compare("matvec", label, y, model @ x, single=(rec.precision == "single"), flags=self._flags(rec))

    def op_strong_form(self, op):
        from workloads import ops

        rec = self.pick(self.ops, op["op"])
        if rec is None:
            self.event("strong_form", "skipped")
            return
        label = ops.op_label(rec.spec) + "/" + str(rec.assembler)
        first_weak = rec.vector is None
        vector = self.resolved_vector(rec.params) if first_weak else rec.vector
        first_strong = rec.strong_vector is None
        gvec = self.global_vector() if first_strong else rec.strong_vector
        # the space-level mass matrix may already have been memoised under other globals
        same_space = bool(rec.dom is rec.dual or rec.dom.obj == rec.dual.obj)
        shared_mass = same_space and rec.dom.mass_vector is not None and first_strong

        def go():
            sf = rec.obj.strong_form()
            return sf, np.asarray(sf.to_dense())

        res = self._call(go)
        if res is PEER_FAULT:
            self.event("strong_form", label, "peer_fault")
            rec.failed += 1
            # the range map (inverse mass matrix) is memoised before the weak form is touched
            if first_strong and getattr(rec.obj, "_range_map", None) is not None:
                rec.strong_vector = gvec
                if same_space and rec.dom.mass_vector is None:
                    rec.dom.mass_vector = gvec
                    rec.dom.mass = rec.dom.obj.mass_matrix()
            if first_weak and getattr(rec.obj, "_cached", None) is not None:
                rec.vector = vector
                rec.first = rec.obj.weak_form()
            return
        flags = self._flags_with(rec, vector)
        flags["mass_matrix_reused"] = bool(shared_mass)
        model = self.model_strong(rec, vector, gvec)
        m = self.model_mass(rec.dom, rec.dual, gvec)
        kappa = None
        if not isinstance(m, Failure):
            sv = np.linalg.svd(np.asarray(m, dtype=np.complex128), compute_uv=False)
            kappa = float("inf") if (len(sv) == 0 or sv[-1] <= 1e-12 * sv[0]) else float(sv[0] / sv[-1])
        if isinstance(res, Failure):
            self.compare("strong_form", label, res, model, flags=flags)
            return
        sf, val = res
        if first_weak:
            rec.vector = vector
            rec.first = rec.obj.weak_form()
            self.out.nontrivial = True
        if first_strong:
            rec.strong_vector = gvec
            if same_space and rec.dom.mass_vector is None:
                rec.dom.mass_vector = gvec
                rec.dom.mass = rec.dom.obj.mass_matrix()
        if shared_mass:
            self.out.probe("mass_matrix_reused_across_operators")
            if rec.dom.mass_vector.get("quadrature.regular") != gvec.get("quadrature.regular"):
                self.out.probe("mass_matrix_reused_after_order_change")
                flags["mass_matrix_order_changed"] = True
                flags["mass_orders"] = sorted([rec.dom.mass_vector.get("quadrature.regular"), gvec.get("quadrature.regular")])
        if isinstance(model, Failure):
            self.compare("strong_form", label, val, model, flags=flags)
            return
        if kappa is None or not np.isfinite(kappa) or kappa > 1e5:
            # a (numerically) rank-deficient mass matrix makes the pseudo-inverse arbitrarily sensitive to
            # rounding: nothing can be concluded from a difference
            self.out.probe("strong_form_ill_conditioned_skipped")
            self.event("strong_form", label, "ill_conditioned")
            return
        square = m.shape[0] == m.shape[1]
        amp = kappa if square else kappa * kappa
        rtol = (1e-8 if rec.precision != "single" else 5e-5) + 1e-13 * amp
        if rec.precision == "single":
            # entrywise, with the float32 floor of the weak form amplified by the range map
            try:
                gain = float(np.max(np.abs(np.linalg.pinv(np.asarray(m, dtype=np.complex128)))))
            except np.linalg.LinAlgError:
                gain = 1.0
            ok, err, scale = common.close_single(val, model, rtol=rtol, afloor=3e-7 * max(1.0, gain) * max(1, m.shape[1]))
        else:
            ok, err, scale = common.close(val, model, rtol=rtol, afloor=1e-10)
        self.event("strong_form", label, bool(ok))
        if not ok:
            self.violate("history_value_differs", what="strong_form", op=label, err=err, scale=scale,
                         rel=(err / scale if scale else None), flags=flags)

    def op_mass_matrix(self, op):
        sp = self.pick(self.spaces, op["space"])
        if sp is None:
            self.event("mass_matrix", "skipped")
            return
        first = sp.mass_vector is None
        # a fresh process calling mass_matrix() now assembles with the globals in force now
        gvec = self.global_vector()
        res = self._call(lambda: sp.obj.mass_matrix())
        if res is PEER_FAULT:
            return
        model = self.model_mass(sp, sp, gvec)
        label = "mass_matrix/" + sp.spec["kind"]
        flags = {"assembler": "sparse", "family": "sparse", "opname": "mass_matrix", "dom_kind": sp.spec["kind"]}
        if not first:
            self.out.probe("mass_matrix_called_again")
            if sp.mass_vector.get("quadrature.regular") != gvec.get("quadrature.regular"):
                self.out.probe("mass_matrix_called_again_after_order_change")
                flags["mass_matrix_order_changed"] = True
                flags["mass_orders"] = sorted([sp.mass_vector.get("quadrature.regular"), gvec.get("quadrature.regular")])
        if isinstance(res, Failure):
            self.compare("mass_matrix", label, res, model, flags=flags)
            return
        sp.mass_vector = gvec
        sp.mass = res
        self.out.nontrivial = True
        self.compare("mass_matrix", label, np.asarray(res.to_dense()), model, flags=flags)

    def op_create_pot(self, op):
        from workloads import ops

        sp = self.pick(self.spaces, op["space"])
        if sp is None:
            self.event("create_pot", "skipped")
            return
        pidx = op.get("params")
        if pidx is not None and not self.params:
            pidx = None
        pobj = None if pidx is None else self.params[pidx % len(self.params)]["obj"]
        vector = self.resolved_vector(pidx)
        points = ops.probe_points(op["npoints"], self.raw[sp.grid_index])
        rec = Rec(obj=None, spec=op["spec"], space=sp, assembler=op.get("assembler", "dense"), precision=op.get("precision"),
                  params=pidx, vector=vector, npoints=op["npoints"], failed=0)
        label = "potential:" + ops.op_label(op["spec"]) + "/" + rec.assembler
        res = self._call(lambda: ops.build_potential(op["spec"], sp.obj, points, rec.assembler, pobj, op.get("precision")))
        if res is PEER_FAULT:
            self.event("create_pot", label, "peer_fault")
            return
        if isinstance(res, Failure):
            # construction already touches the assembler: compare with the fresh process
            model = self.model_potential(rec, vector, 1, False)
            if isinstance(model, Failure) and model.exc_class == res.exc_class:
                self.event("create_pot", label, "rejected", res.exc_class)
                return
            if not isinstance(model, Failure):
                self.violate("history_raises", what="create_potential", op=label, exc=res.exc_class, msg=res.msg,
                             tb=res.tb, flags=self._pot_flags(rec))
            return
        rec.obj = res
        self.pots.append(rec)
        self.event("create_pot", label, pidx is not None)
        if pidx is not None:
            gv = self.global_vector()
            if vector["quadrature.regular"] != gv["quadrature.regular"]:
                self.out.probe("explicit_params_differ_from_global")

    def _pot_flags(self, rec):
        gv = self.global_vector()
        return {
            "assembler": rec.assembler,
            "family": rec.spec.get("family"),
            "opname": rec.spec.get("op"),
            "potential": True,
            "explicit_params": rec.params is not None,
            "explicit_regular_differs_from_global": bool(rec.params is not None and rec.vector.get("quadrature.regular") != gv.get("quadrature.regular")),
            "dom_kind": rec.space.spec["kind"],
            "after_peer_fault": bool(self.fault_seen),
        }

    def op_evaluate(self, op):
        import bempp_cl.api
        from workloads import ops

        rec = self.pick(self.pots, op["pot"])
        if rec is None:
            self.event("evaluate", "skipped")
            return
        label = "potential:" + ops.op_label(rec.spec) + "/" + rec.assembler
        cplx = bool(op.get("complex", False))

        def go():
            x = common.seeded_vector(rec.space.obj.global_dof_count, op["vseed"], cplx)
            fun = bempp_cl.api.GridFunction(rec.space.obj, coefficients=x)
            return np.asarray(rec.obj.evaluate(fun))

        res = self._call(go)
        if res is PEER_FAULT:
            self.event("evaluate", label, "peer_fault")
            return
        if self.oracle == "fresh_dense" and rec.assembler == "fmm":
            model = self.model_potential(rec, rec.vector, op["vseed"], cplx, assembler="dense")
        else:
            model = self.model_potential(rec, rec.vector, op["vseed"], cplx)
        self.out.nontrivial = True
        if rec.assembler == "fmm":
            self.out.probe("fmm_potential_evaluated")
        self.compare("evaluate", label, res, model, single=(rec.precision == "single"), flags=self._pot_flags(rec))

    def op_clear_fmm_cache(self, op):
        import bempp_cl.api
        import bempp_cl.api.fmm.fmm_assembler as fa

        def sizes():
            # the two caches the property names; a refactoring may rename them, then only the effect on later
            # results (H1) is checked
            out_ = []
            for nm in ("_FMM_CACHE", "_FMM_POTENTIAL_CACHE"):
                c = getattr(fa, nm, None)
                out_.append(len(c) if isinstance(c, dict) else None)
            return out_

        before = sizes()
        had = sum(x for x in before if x)
        bempp_cl.api.clear_fmm_cache()
        self.event("clear_fmm_cache", had)
        self.cleared_since_fmm = True
        if had:
            self.out.fault("F2_cache_clear_nonempty")
        after = sizes()
        if any(x for x in after if x):
            self.violate("clear_fmm_cache_incomplete", op="clear_fmm_cache", flags={})

    def op_arm_peer_fault(self, op):
        import exafmm

        c = exafmm.CONTROL
        c.fail_on = {op["what"]: c.count.get(op["what"], 0) + int(op.get("n", 1))}
        self.event("arm_peer_fault", op["what"], op.get("n", 1))
        self.out.fault("F3_peer_fault_armed")

    # ------------------------------------------------------------------ end of run
    def final_checks(self):
        """H3: memoised objects and their values are unchanged by anything that happened later."""
        import exafmm
        from workloads import ops

        exafmm.CONTROL.fail_on = {}
        for rec in self.ops:
            if rec.vector is None or rec.first is None:
                continue
            label = ops.op_label(rec.spec) + "/" + str(rec.assembler)
            res = self._call(lambda: rec.obj.weak_form())
            if isinstance(res, Failure) or res is PEER_FAULT:
                self.violate("weak_form_not_memoised", op=label, detail="weak_form() of a materialised operator raised", flags=self._flags(rec))
                continue
            if res is not rec.first:
                self.violate("weak_form_not_memoised", op=label, flags=self._flags(rec))
                continue
            if rec.digest is not None and rec.assembler != "fmm":
                now = rng.array_digest(np.asarray(res.to_dense()))
                self.out.probe("memoised_value_rechecked")
                if now != rec.digest:
                    self.violate("memoised_value_changed", op=label, flags=self._flags(rec))
            elif rec.assembler == "fmm":
                # an FMM operator is an evaluator: its action must still be what a fresh process computes
                val = self._call(lambda: np.asarray(res.to_dense()))
                if isinstance(val, Failure):
                    self.violate("history_raises", what="final_recheck", op=label, exc=val.exc_class, msg=val.msg,
                                 tb=val.tb, flags=self._flags(rec))
                elif val is not PEER_FAULT:
                    self.out.probe("fmm_operator_rechecked_at_end")
                    self.compare("final_recheck", label, val, self.model_for(rec, rec.vector), flags=self._flags(rec))
