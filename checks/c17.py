"""C17 -- FMM-mode operators equal dense-mode ones given an exact far-field evaluator.

Deciding step: seeded configuration sweep with the simulated `exafmm` peer (see
fakes/exafmm/_core.py), peer-seam variations (cache hit/miss, near-field representation,
dense_evaluation bypass, peer-internal permutation and chunking), plus the shipped
reference vectors.  The same invariant is also evaluated inside every C18 history.
"""

import os
import sys
import time
import traceback

from sim import env, rng  # noqa: E402  (sets thread-count environment before numpy loads)

import numpy as np
from sim.runner import Outcome

PROP = "C17"

# profile index -> what that run explores (keeps JIT compilation local to one worker)
PROFILES = [
    ("boundary", "laplace", ("single_layer",)),
    ("boundary", "laplace", ("double_layer",)),
    ("boundary", "laplace", ("adjoint_double_layer",)),
    ("boundary", "laplace", ("hypersingular",)),
    ("boundary", "helmholtz", ("single_layer",)),
    ("boundary", "helmholtz", ("double_layer",)),
    ("boundary", "helmholtz", ("adjoint_double_layer",)),
    ("boundary", "helmholtz", ("hypersingular",)),
    ("boundary", "modified_helmholtz", ("single_layer", "double_layer")),
    ("boundary", "modified_helmholtz", ("adjoint_double_layer", "hypersingular")),
    ("boundary", "maxwell", ("electric_field",)),
    ("boundary", "maxwell", ("magnetic_field",)),
    ("potential", "laplace", ("single_layer", "double_layer")),
    ("potential", "helmholtz", ("single_layer", "double_layer")),
    ("potential", "modified_helmholtz", ("single_layer", "double_layer")),
    ("potential", "maxwell", ("electric_field", "magnetic_field")),
]

GRID_FAMILIES = ["tetrahedron", "octahedron", "cube", "screen2", "lshape", "torus", "fan", "two_tetrahedra", "screen1", "pinched", "moebius"]
SECOND_GRID = ["tetrahedron", "octahedron", "screen1", "lshape"]


def _wavenumber(r, family):
    if family == "laplace":
        return None
    if family == "modified_helmholtz":
        return round(r.uniform(0.3, 2.5), 3)
    re = round(r.uniform(0.5, 3.0), 3)
    im = round(r.uniform(0.1, 1.0), 3) if r.random() < 0.4 else 0.0
    return [re, im]


class C17Check(object):
    prop = PROP
    rule = (
        "run r draws (profile=r%16: operator family/kind; grid family, refinement, renumbering, rigid motion; "
        "same grid or two disjoint grids; domain/dual space kinds with segments, support_elements, boundary-dof "
        "options, swapped normals; real or complex wavenumber and vector; global quadrature orders; peer-seam "
        "variations) from sha256(seed:C17:r). A run is non-trivial if the FMM-mode operator/potential was applied "
        "through the simulated peer at least once and compared entrywise with its dense counterpart; distinct = "
        "distinct event-log digests."
    )
    step_unit = "API calls into bempp-cl plus calls received by the simulated exafmm peer"
    state_measure = "distinct (operator, space kinds, option flags, grid relation, peer variation) tuples"
    not_injected = [
        "thread schedules (property has no schedule quantifier)",
        "message loss/duplication/reordering, partitions, clock skew, crash/restart, disk faults: "
        "no anchored code has a network, timer, durable state or recovery path",
    ]
    components = {
        "real": [
            "bempp_cl operator factories, FmmAssembler, ExafmmInterface, fmm/helpers near-field kernels, "
            "space point maps, dense/singular/sparse/potential assemblers (compiled Numba kernels)"
        ],
        "stub": ["exafmm extension -> /verif/fakes/exafmm (exact direct summation, r=0 terms dropped)"],
        "harness_built": ["untransformed clone of barycentric spaces for the dense counterpart T'AT"],
    }
    assumptions = [
        "the fake peer honours the contract bempp-cl relies on: values at targets in the given order, "
        "columns [potential, grad wrt target], r=0 terms dropped, fresh result array (sign and normalisation "
        "are pinned by the shipped reference vectors, produced with the real extension)",
        "agreement 'to rounding' is ||a-b|| <= 1e-9*max(||a||,||b||) + 1e-11*sqrt(size)",
        "grids of at most ~100 elements; two-grid cases use disjoint grids",
    ]

    with_reference = True

    def __init__(self):
        self.tier = getattr(C17Check, "default_tier", "quick")
        self.worker_index = 0
        self.nworkers = 1

    # ---------------------------------------------------------------- generation
    def generate(self, seed, run):
        from workloads import grids, spaces

        from checks import c17_reference

        refs = c17_reference.reference_cases(self.tier) if self.with_reference else []
        if run < len(refs):
            return refs[run]
        run -= len(refs)
        if run % 6 == 5:
            # the invariant inside a history: FMM-mode values observed after cache hits and misses, parameter
            # changes, cache clears and peer variations are compared with the DENSE counterpart of a fresh process
            from checks import c18

            h = c18.C18Check()
            h.prop = "C17H"
            h.tier = self.tier
            case = h.generate_history(seed, run // 6)
            case["enable"]["F3"] = False
            case["ops"] = [o for o in case["ops"] if o["t"] != "arm_peer_fault"]
            for o in case["ops"]:
                if o["t"] == "create_op" and o["spec"]["family"] != "sparse" and o.get("assembler") != "only_singular_part":
                    o["assembler"] = "fmm"
                    o["precision"] = None
                if o["t"] == "create_pot":
                    o["assembler"] = "fmm"
            case["kind"] = "history"
            return case
        r = rng.stream(seed, PROP, run, "input")
        kind, family, opnames = PROFILES[run % len(PROFILES)]
        op = r.choice(list(opnames))
        spec = {"family": family, "op": op}
        w = _wavenumber(r, family)
        if w is not None:
            spec["wavenumber"] = w
        gfam = r.choice(GRID_FAMILIES)
        refinements = 1 if (gfam in ("tetrahedron", "screen1", "fan") and r.random() < 0.5) else 0
        if gfam in ("octahedron", "lshape") and r.random() < 0.15:
            refinements = 1
        g1 = {
            "family": gfam,
            "refinements": refinements,
            "tseed": r.randrange(1 << 30),
            "renumber": r.random() < 0.7,
            "rotate": r.random() < 0.7,
            "affine": r.random() < 0.5,
        }
        case = {"kind": kind, "op": spec, "grid": g1}
        raw1 = self._raw(g1)
        if family == "maxwell":
            dkinds, tkinds = ("RWG", "RWG", "BC"), ("SNC", "SNC", "RBC")
        elif op == "hypersingular":
            dkinds = tkinds = ("P1", "P1", "DP1", "DUAL1")
        else:
            dkinds = tkinds = ("DP0", "DP1", "P1", "P1", "DUAL0", "DUAL1")
        if kind == "boundary":
            two = r.random() < 0.3
            if two:
                g2 = {
                    "family": r.choice(SECOND_GRID),
                    "refinements": 0,
                    "tseed": r.randrange(1 << 30),
                    "renumber": True,
                    "rotate": True,
                    "affine": False,
                    "shift": [15.0, 1.0, -0.5],
                }
                case["grid2"] = g2
                raw2 = self._raw(g2)
            else:
                raw2 = raw1
            dk = r.choice(dkinds)
            tk = r.choice(tkinds)
            # barycentric and plain spaces can only be mixed on one grid
            if two:
                dk = {"DUAL0": "DP0", "DUAL1": "P1", "BC": "RWG"}.get(dk, dk)
                tk = {"DUAL0": "DP0", "DUAL1": "P1", "RBC": "SNC"}.get(tk, tk)
            case["domain"] = spaces.random_spec(r, raw1, [dk])
            if not two and r.random() < 0.35 and tk == dk:
                case["dual"] = dict(case["domain"])
            else:
                case["dual"] = spaces.random_spec(r, raw2, [tk])
        else:
            pk = r.choice(("RWG", "RWG", "BC") if family == "maxwell" else ("DP0", "DP1", "P1", "P1", "DUAL0", "DUAL1"))
            case["space"] = spaces.random_spec(r, raw1, [pk])
            case["npoints"] = r.choice([1, 3, 7])
        vec = dict(env.DEFAULT_VECTOR)
        vec["quadrature.regular"] = r.choice([1, 2, 2, 3, 3, 4, 4, 5, 6])
        vec["quadrature.singular"] = r.choice([2, 3, 4, 4, 5])
        vec["fmm.near_field_representation"] = r.choice(["evaluate", "sparse"])
        vec["fmm.dense_evaluation"] = r.random() < 0.15
        vec["fmm.expansion_order"] = r.choice([3, 5, 7])
        vec["fmm.ncrit"] = r.choice([50, 400])
        case["params"] = vec
        case["peer"] = {
            "permute": r.randrange(1 << 30) if r.random() < 0.35 else None,
            "chunk": r.choice([1, 7, 64, 256]),
        }
        case["cache_hit_first"] = r.random() < 0.4
        case["complex_vector"] = r.random() < 0.4
        case["vseed"] = r.randrange(1 << 30)
        return case

    @staticmethod
    def _raw(g):
        import random

        from workloads import grids

        return grids.make_raw(
            g["family"],
            g.get("refinements", 0),
            random.Random(g.get("tseed", 0)),
            g.get("renumber", False),
            g.get("rotate", False),
            g.get("affine", False),
            g.get("shift"),
        )

    # ---------------------------------------------------------------- execution
    def execute(self, case):
        import exafmm

        out = Outcome()
        env.reset_process_state("c17")
        try:
            if case["kind"] == "boundary":
                self._exec_boundary(case, out, exafmm)
            elif case["kind"] == "potential":
                self._exec_potential(case, out, exafmm)
            elif case["kind"] == "reference":
                self._exec_reference(case, out, exafmm)
            elif case["kind"] == "history":
                from checks import history

                eng = history.Engine(case, out, oracle="fresh_dense")
                eng.run()
                out.probe("history_runs")
                out.sample = {"history": [o["t"] for o in case["ops"]], "bundle": case["bundle"]}
            else:
                raise ValueError(case["kind"])
        finally:
            out.steps += sum(exafmm.CONTROL.count.values())
            if exafmm.CONTROL.complex_charges_to_real_kernel:
                out.probe("complex_charges_to_real_kernel", exafmm.CONTROL.complex_charges_to_real_kernel)
            env.reset_process_state("c17")
        return out

    def _configure(self, case, exafmm):
        import bempp_cl.api

        env.write_params(bempp_cl.api.GLOBAL_PARAMETERS, case["params"])
        exafmm.CONTROL.permute_seed = case["peer"].get("permute")
        exafmm.CONTROL.chunk = case["peer"].get("chunk", 256)

    def _exec_boundary(self, case, out, exafmm):
        from workloads import grids, spaces, ops
        from checks import common

        self._configure(case, exafmm)
        spec = case["op"]
        raw1 = self._raw(case["grid"])
        grid1 = grids.to_grid(raw1)
        two = "grid2" in case
        grid2 = grids.to_grid(self._raw(case["grid2"])) if two else grid1
        out.steps += 2
        # setting up the spaces is not what is under test: a spec the library rejects is skipped
        try:
            dom = spaces.make_space(grid1, case["domain"])
            dual = dom if (not two and case["dual"] == case["domain"]) else spaces.make_space(grid2, case["dual"])
        except Exception as e:  # noqa: BLE001
            out.probe("space_rejected")
            out.events.append(["space_rejected", type(e).__name__])
            return
        if min(dom.global_dof_count, dual.global_dof_count) == 0 or min(
            dom.number_of_support_elements, dual.number_of_support_elements
        ) == 0:
            # a space without support (e.g. P1 without boundary dofs on a screen whose vertices are
            # all on the boundary) is not a space the property talks about
            out.probe("empty_space")
            out.events.append(["empty_space"])
            return
        out.steps += 2
        label = ops.op_label(spec)
        flags = self._flags(case, dom, dual, two)
        out.state_keys.append(rng.digest([label.split("@")[0], flags]))
        # dense counterpart first (quadrature orders "set globally")
        try:
            A, how = common.dense_counterpart_matrix(spec, dom, dual)
        except Exception as e:  # noqa: BLE001
            # if dense mode itself rejects the configuration there is no counterpart to compare with
            out.probe("dense_rejected")
            out.events.append(["dense_rejected", type(e).__name__, str(e)[:120]])
            return
        out.probe("dense_counterpart_" + how)
        out.steps += 1
        if case.get("cache_hit_first"):
            # another FMM operator of the same family on the same grids first: the operator under
            # test then finds the interface in the cache
            other = dict(spec)
            other["op"] = "single_layer" if spec["family"] != "maxwell" else spec["op"]
            try:
                pre_dom, pre_dual = dom, dual
                if other["op"] != spec["op"]:
                    # single layer accepts any scalar space
                    pass
                pre = ops.build_boundary(other, pre_dom, pre_dom, pre_dual, "fmm")
                pre.weak_form() @ np.ones(pre_dom.global_dof_count)
                out.probe("cache_primed")
            except Exception as e:  # noqa: BLE001
                out.events.append(["prime_failed", type(e).__name__, str(e)[:200]])
                out.violate(
                    "fmm_raises",
                    op=label,
                    where="priming operator",
                    exc=type(e).__name__,
                    msg=str(e)[:300],
                    flags=flags,
                )
                return
        n_setup_before = exafmm.CONTROL.count["setup"]
        try:
            fop = ops.build_boundary(spec, dom, dom, dual, "fmm")
            wf = fop.weak_form()
            out.steps += 2
            n = dom.global_dof_count
            x = common.seeded_vector(n, case["vseed"], case.get("complex_vector", False))
            y = wf @ x
            out.steps += 1
            B = None
            if n <= 60:
                B = wf.to_dense()
                out.steps += n
        except Exception as e:  # noqa: BLE001
            out.events.append(["fmm_raises", label, type(e).__name__, str(e)[:200]])
            out.violate(
                "fmm_raises",
                op=label,
                exc=type(e).__name__,
                msg=str(e)[:300],
                flags=flags,
                tb=traceback.format_exc(limit=6)[-1500:],
            )
            return
        if case.get("cache_hit_first") and exafmm.CONTROL.count["setup"] == n_setup_before:
            out.probe("fmm_cache_hit")
        if not case["params"]["fmm.dense_evaluation"]:
            out.nontrivial = exafmm.CONTROL.count["evaluate"] > 0
        else:
            out.probe("dense_evaluation_bypass")
            out.nontrivial = True
        for name in ("segments", "support_elements", "swapped_normals"):
            if flags.get("dom_" + name) or flags.get("dual_" + name):
                out.probe("with_" + name)
        for k in ("two_grids", "barycentric", "extended_support", "complex_vector", "complex_wavenumber"):
            if flags.get(k):
                out.probe(k)
        if case["peer"].get("permute") is not None:
            out.probe("peer_permutation")
        out.probe("near_field_" + case["params"]["fmm.near_field_representation"])
        ok, err, scale = common.close(y, A @ x)
        out.events.append(["matvec", label, rng.array_digest(np.round(np.asarray(A @ x), 9)), bool(ok)])
        if not ok:
            out.violate("fmm_differs_from_dense", op=label, what="matvec", err=err, scale=scale, flags=flags)
        if B is not None:
            ok2, err2, scale2 = common.close(B, A)
            out.events.append(["matrix", label, list(A.shape), bool(ok2)])
            if not ok2:
                out.violate("fmm_differs_from_dense", op=label, what="matrix", err=err2, scale=scale2, flags=flags)
        out.sample = {
            "op": label,
            "grid": case["grid"]["family"],
            "grid2": case.get("grid2", {}).get("family"),
            "domain": case["domain"],
            "dual": case["dual"],
            "params": {k: case["params"][k] for k in ("quadrature.regular", "quadrature.singular", "fmm.near_field_representation", "fmm.dense_evaluation")},
            "shape": list(A.shape),
            "rel_err_matvec": (err / scale) if scale else 0.0,
        }

    def _flags(self, case, dom, dual, two):
        w = case["op"].get("wavenumber")
        return {
            "dom_kind": case["domain"]["kind"],
            "dual_kind": case["dual"]["kind"],
            "dom_segments": "segments" in case["domain"],
            "dual_segments": "segments" in case["dual"],
            "dom_support_elements": "support_elements" in case["domain"],
            "dual_support_elements": "support_elements" in case["dual"],
            "dom_swapped_normals": "swapped_normals" in case["domain"],
            "dual_swapped_normals": "swapped_normals" in case["dual"],
            "dom_partial_support": bool(dom.number_of_support_elements < dom.grid.number_of_elements),
            "dual_partial_support": bool(dual.number_of_support_elements < dual.grid.number_of_elements),
            "extended_support": bool(
                case["domain"].get("truncate_at_segment_edge") is False or case["dual"].get("truncate_at_segment_edge") is False
            ),
            "two_grids": bool(two),
            "barycentric": bool(dom.is_barycentric or dual.is_barycentric or dom.requires_dof_transformation or dual.requires_dof_transformation),
            "complex_vector": bool(case.get("complex_vector")),
            "complex_wavenumber": bool(isinstance(w, list) and w[1] != 0),
            "near_field": case["params"]["fmm.near_field_representation"],
            "dense_evaluation": bool(case["params"]["fmm.dense_evaluation"]),
            "cache_hit_first": bool(case.get("cache_hit_first")),
        }

    def _exec_potential(self, case, out, exafmm):
        import bempp_cl.api
        from workloads import grids, spaces, ops
        from checks import common

        self._configure(case, exafmm)
        spec = case["op"]
        raw1 = self._raw(case["grid"])
        grid1 = grids.to_grid(raw1)
        try:
            space = spaces.make_space(grid1, case["space"])
        except Exception as e:  # noqa: BLE001
            out.probe("space_rejected")
            out.events.append(["space_rejected", type(e).__name__])
            return
        if space.global_dof_count == 0 or space.number_of_support_elements == 0:
            out.probe("empty_space")
            out.events.append(["empty_space"])
            return
        points = ops.probe_points(case["npoints"], raw1)
        label = "potential:" + ops.op_label(spec)
        sp = case["space"]
        flags = {
            "kind": sp["kind"],
            "segments": "segments" in sp,
            "support_elements": "support_elements" in sp,
            "swapped_normals": "swapped_normals" in sp,
            "partial_support": bool(space.number_of_support_elements < space.grid.number_of_elements),
            "extended_support": sp.get("truncate_at_segment_edge") is False,
            "barycentric": bool(space.is_barycentric or space.requires_dof_transformation),
            "complex_vector": bool(case.get("complex_vector")),
            "dense_evaluation": bool(case["params"]["fmm.dense_evaluation"]),
            "cache_hit_first": bool(case.get("cache_hit_first")),
        }
        out.state_keys.append(rng.digest([label.split("@")[0], flags]))
        x = common.seeded_vector(space.global_dof_count, case["vseed"], case.get("complex_vector", False))
        fun = bempp_cl.api.GridFunction(space, coefficients=x)
        try:
            ref = ops.build_potential(spec, space, points, "dense").evaluate(fun)
        except Exception as e:  # noqa: BLE001
            out.probe("dense_rejected")
            out.events.append(["dense_rejected", type(e).__name__, str(e)[:120]])
            return
        out.steps += 4
        try:
            if case.get("cache_hit_first"):
                pre = ops.build_potential(spec, space, points, "fmm")
                pre.evaluate(fun)
                out.probe("cache_primed")
            n0 = exafmm.CONTROL.count["setup"]
            pot = ops.build_potential(spec, space, points, "fmm")
            val = pot.evaluate(fun)
            if case.get("cache_hit_first") and exafmm.CONTROL.count["setup"] == n0:
                out.probe("potential_cache_hit")
            out.steps += 2
        except Exception as e:  # noqa: BLE001
            out.events.append(["fmm_raises", label, type(e).__name__, str(e)[:200]])
            out.violate(
                "fmm_raises", op=label, exc=type(e).__name__, msg=str(e)[:300], flags=flags, tb=traceback.format_exc(limit=6)[-1500:]
            )
            return
        out.nontrivial = True
        for k in ("segments", "support_elements", "swapped_normals", "barycentric", "complex_vector", "extended_support"):
            if flags.get(k):
                out.probe(("with_" + k) if k in ("segments", "support_elements", "swapped_normals") else k)
        ok, err, scale = common.close(val, ref)
        out.events.append(["potential", label, rng.array_digest(np.round(np.asarray(ref), 9)), bool(ok)])
        if not ok:
            out.violate("fmm_differs_from_dense", op=label, what="potential", err=err, scale=scale, flags=flags)
        out.sample = {
            "op": label,
            "grid": case["grid"]["family"],
            "space": sp,
            "npoints": case["npoints"],
            "rel_err": (err / scale) if scale else 0.0,
        }

    # ---------------------------------------------------------------- shipped reference vectors
    def _exec_reference(self, case, out, exafmm):
        from checks import c17_reference

        c17_reference.run_reference(case, out)

    # ---------------------------------------------------------------- classification / minimisation
    def signature(self, case, v):
        sig = {"kind": v.get("kind"), "case_kind": case.get("kind")}
        fl = v.get("flags") or {}
        sig.update(fl)
        sig["family"] = case.get("op", {}).get("family")
        sig["op"] = case.get("op", {}).get("op")
        sig["exc"] = v.get("exc")
        return sig

    def minimise(self, case, violation):
        """Greedy simplification of the configuration while the same violation kind persists."""
        import copy

        if case.get("kind") == "history":
            from checks import c18

            h = c18.C18Check()
            h.oracle = "fresh_dense"
            h.execute = self.execute
            return h.minimise(case, violation)
        if case.get("kind") == "reference":
            return None

        kind = violation["kind"]

        def still(c):
            oc = self.execute(c)
            return any(v["kind"] == kind for v in oc.violations)

        cur = copy.deepcopy(case)
        steps = [
            lambda c: c.update(cache_hit_first=False),
            lambda c: c.update(complex_vector=False),
            lambda c: c["peer"].update(permute=None, chunk=256),
            lambda c: c["params"].update({"fmm.dense_evaluation": False}),
            lambda c: c["params"].update({"fmm.near_field_representation": "evaluate"}),
            lambda c: c["params"].update({"quadrature.regular": 2, "quadrature.singular": 2}),
            lambda c: c["params"].update({"fmm.expansion_order": 5, "fmm.ncrit": 400}),
            lambda c: c["grid"].update(renumber=False, rotate=False, affine=False),
            lambda c: c["grid"].update(refinements=0),
            lambda c: c.pop("grid2", None),
            lambda c: [c[k].pop("swapped_normals", None) for k in ("domain", "dual", "space") if k in c],
            lambda c: [c[k].pop("include_boundary_dofs", None) for k in ("domain", "dual", "space") if k in c],
            lambda c: [c[k].pop("truncate_at_segment_edge", None) for k in ("domain", "dual", "space") if k in c],
            lambda c: c.__setitem__("dual", dict(c["domain"])) if "domain" in c else None,
            lambda c: [c[k].pop("segments", None) for k in ("dual",) if k in c],
            lambda c: [c[k].pop("support_elements", None) for k in ("dual",) if k in c],
            lambda c: [c[k].pop("segments", None) for k in ("domain", "space") if k in c],
            lambda c: [c[k].pop("support_elements", None) for k in ("domain", "space") if k in c],
            lambda c: c["grid"].update(family="octahedron"),
            lambda c: c["grid"].update(family="tetrahedron"),
            lambda c: c["op"].update(wavenumber=[c["op"]["wavenumber"][0], 0.0]) if isinstance(c["op"].get("wavenumber"), list) else None,
        ]
        for step in steps:
            cand = copy.deepcopy(cur)
            try:
                step(cand)
                if cand != cur and still(cand):
                    cur = cand
            except Exception:  # noqa: BLE001
                continue
        return cur


def factory():
    return C17Check()


def main(argv=None):
    import argparse

    from sim import runner

    ap = argparse.ArgumentParser()
    ap.add_argument("--tier", default=os.environ.get("VERIF_TIER", "quick"))
    ap.add_argument("--runs", type=int, default=None)
    ap.add_argument("--workers", type=int, default=None)
    ap.add_argument("--replay", default=None)
    ap.add_argument("--digests", default=None, help="determinism aid: print run digests for the given runs, e.g. 0-15")
    ap.add_argument("--repeat", type=int, default=1)
    ap.add_argument("--no-reference", action="store_true")
    args = ap.parse_args(argv)
    if args.replay:
        args.replay = os.path.abspath(args.replay)
    env.bootstrap(threads=1)
    if args.replay:
        return runner.replay(factory(), args.replay)
    if args.digests:
        chk = factory()
        chk.tier = args.tier
        return runner.print_digests(chk, runner.parse_runs(args.digests), args.repeat)
    runs = args.runs if args.runs is not None else (342 if args.tier == "quick" else 40000)
    if args.no_reference:
        C17Check.with_reference = False
    C17Check.default_tier = args.tier
    return runner.run(factory, PROP, args.tier, runs, nworkers=args.workers)


if __name__ == "__main__":
    sys.exit(main())
