"""C18 -- results depend only on explicit arguments, not on process history.

Seeded API-call histories (several logical clients sharing one process) with parameter
mutation, cache clears and peer faults, checked step by step against a reference model of
"what a fresh process computes" (fresh emulation, see sim/env.py fresh_process).
"""

import copy
import os
import sys

from sim import env, rng  # noqa: E402  (sets thread-count environment before numpy loads)

import numpy as np  # noqa: F401

from sim.runner import Outcome

PROP = "C18"

H = [2.5, 0.0]
HC = [1.5, 0.7]

# bundle = what one worker compiles: boundary operators, admissible space kinds, a potential
BUNDLES = [
    dict(ops=[{"family": "laplace", "op": "single_layer"}, {"family": "laplace", "op": "double_layer"}],
         kinds=["DP0", "P1"], pot={"family": "laplace", "op": "single_layer"}, grids=["octahedron", "cube"]),
    dict(ops=[{"family": "laplace", "op": "adjoint_double_layer"}, {"family": "laplace", "op": "hypersingular"}],
         kinds=["P1"], pot={"family": "laplace", "op": "double_layer"}, grids=["cube", "screen2"]),
    dict(ops=[{"family": "helmholtz", "op": "single_layer", "wavenumber": H}, {"family": "helmholtz", "op": "double_layer", "wavenumber": H}],
         kinds=["DP0", "P1"], pot={"family": "helmholtz", "op": "single_layer", "wavenumber": H}, grids=["octahedron", "lshape"]),
    dict(ops=[{"family": "helmholtz", "op": "hypersingular", "wavenumber": HC}, {"family": "helmholtz", "op": "adjoint_double_layer", "wavenumber": HC}],
         kinds=["P1"], pot={"family": "helmholtz", "op": "double_layer", "wavenumber": HC}, grids=["tetrahedron", "cube"]),
    dict(ops=[{"family": "modified_helmholtz", "op": "single_layer", "wavenumber": 1.3}, {"family": "modified_helmholtz", "op": "hypersingular", "wavenumber": 1.3}],
         kinds=["P1", "DP1"], pot={"family": "modified_helmholtz", "op": "single_layer", "wavenumber": 1.3}, grids=["octahedron", "screen2"]),
    dict(ops=[{"family": "modified_helmholtz", "op": "double_layer", "wavenumber": 0.7}, {"family": "modified_helmholtz", "op": "adjoint_double_layer", "wavenumber": 0.7}],
         kinds=["DP0", "DP1"], pot={"family": "modified_helmholtz", "op": "double_layer", "wavenumber": 0.7}, grids=["cube", "tetrahedron"]),
    dict(ops=[{"family": "maxwell", "op": "electric_field", "wavenumber": [2.0, 0.0]}],
         kinds=["RWG", "SNC"], pot={"family": "maxwell", "op": "electric_field", "wavenumber": [2.0, 0.0]}, grids=["octahedron", "cube"]),
    dict(ops=[{"family": "maxwell", "op": "magnetic_field", "wavenumber": [1.5, 0.5]}],
         kinds=["RWG", "SNC"], pot={"family": "maxwell", "op": "magnetic_field", "wavenumber": [1.5, 0.5]}, grids=["tetrahedron", "octahedron"]),
    dict(ops=[{"family": "laplace", "op": "single_layer"}, {"family": "sparse", "op": "identity"}],
         kinds=["P1", "DP0"], pot={"family": "laplace", "op": "single_layer"}, grids=["cube", "screen2"], segments=True),
    dict(ops=[{"family": "sparse", "op": "identity"}, {"family": "sparse", "op": "laplace_beltrami"}, {"family": "laplace", "op": "single_layer"}],
         kinds=["P1"], pot=None, grids=["octahedron", "cube"]),
    dict(ops=[{"family": "laplace", "op": "single_layer"}, {"family": "sparse", "op": "identity"}],
         kinds=["DUAL0", "P1", "DUAL1"], pot={"family": "laplace", "op": "single_layer"}, grids=["tetrahedron", "octahedron"], fmm_bias=True),
    dict(ops=[{"family": "maxwell", "op": "electric_field", "wavenumber": [1.2, 0.0]}, {"family": "sparse", "op": "identity"}],
         kinds=["RWG", "SNC", "BC", "RBC"], pot=None, grids=["tetrahedron"], fmm_bias=True),
    dict(ops=[{"family": "laplace", "op": "hypersingular"}, {"family": "laplace", "op": "single_layer"}],
         kinds=["P1", "DP1"], pot={"family": "laplace", "op": "double_layer"}, grids=["octahedron", "lshape"], fmm_bias=True),
    dict(ops=[{"family": "helmholtz", "op": "single_layer", "wavenumber": HC}, {"family": "helmholtz", "op": "hypersingular", "wavenumber": H}],
         kinds=["P1"], pot={"family": "helmholtz", "op": "single_layer", "wavenumber": HC}, grids=["octahedron", "cube"], fmm_bias=True),
    dict(ops=[{"family": "laplace", "op": "double_layer"}, {"family": "laplace", "op": "adjoint_double_layer"}],
         kinds=["DP0", "P1"], pot={"family": "laplace", "op": "double_layer"}, grids=["torus", "tetrahedron"], segments=True),
    dict(ops=[{"family": "modified_helmholtz", "op": "single_layer", "wavenumber": 2.1}, {"family": "sparse", "op": "identity"}],
         kinds=["DP0", "DP1", "P1"], pot={"family": "modified_helmholtz", "op": "single_layer", "wavenumber": 2.1}, grids=["cube", "octahedron"], segments=True),
]

MUTABLE_FIELDS = [
    ("quadrature.regular", [1, 2, 3, 4, 5, 6]),
    ("quadrature.regular", [2, 3, 4, 5]),
    ("quadrature.singular", [2, 3, 4, 5]),
    ("fmm.expansion_order", [3, 5, 8]),
    ("fmm.ncrit", [50, 400]),
    ("fmm.depth", [3, 4]),
    ("fmm.near_field_representation", ["evaluate", "sparse"]),
    ("fmm.dense_evaluation", [False, True]),
    ("fmm.debug", [False, True]),
    ("assembly.always_promote_to_double", [False, True]),
]


def _vary_wavenumber(spec, r):
    """Sometimes another wavenumber of the same kind (same compiled kernels, different cache keys)."""
    w = spec.get("wavenumber")
    if w is None or r.random() >= 0.3:
        return spec
    if isinstance(w, list):
        spec["wavenumber"] = [3.1, 0.0] if w[1] == 0 else [1.1, 0.4]
    else:
        spec["wavenumber"] = 0.9
    return spec


def _admissible(spec, kinds):
    """(domain kinds, dual kinds) of the bundle that the operator accepts."""
    if spec["family"] == "maxwell":
        return [k for k in kinds if k in ("RWG", "BC")], [k for k in kinds if k in ("SNC", "RBC")]
    if spec["family"] == "sparse" and spec["op"] == "laplace_beltrami":
        ks = [k for k in kinds if k == "P1"]
        return ks, ks
    if spec["family"] == "sparse":
        if any(k in ("RWG", "BC") for k in kinds):
            return [k for k in kinds if k in ("RWG", "BC")], [k for k in kinds if k in ("SNC", "RBC")]
        return list(kinds), list(kinds)
    if spec["op"] == "hypersingular":
        ks = [k for k in kinds if k in ("P1", "DP1", "DUAL1")]
        return ks, ks
    ks = [k for k in kinds if k in ("DP0", "DP1", "P1", "DUAL0", "DUAL1")]
    return ks, ks


class C18Check(object):
    prop = PROP
    oracle = "fresh_same"
    rule = (
        "run r draws a history (5-40 API calls by 1-3 logical clients: create space / operator / potential, "
        "weak_form, strong_form, matvec, mass_matrix, evaluate, change of global quadrature/FMM parameters, "
        "clear_fmm_cache, peer fault) for operator bundle r%16 from sha256(seed:C18:r); every observed value is "
        "compared with a fresh-process emulation under the parameter vector captured at materialisation. "
        "Non-trivial: at least one operator or potential was materialised and compared; distinct = distinct "
        "event-log digests."
    )
    step_unit = "API calls of the generated history (atomic; one caller thread)"
    state_measure = (
        "hash of (materialised leaf specs with captured quadrature order, current global parameter vector, "
        "FMM cache key set) after every step"
    )
    not_injected = [
        "thread interleavings inside one API call (C16's subject)",
        "message loss/duplication/reordering, partitions, clock skew, crash/restart, disk faults: no anchored code "
        "has a network, timer, durable state or recovery path",
    ]
    components = {
        "real": [
            "all of bempp_cl reached through the public API: operator factories, AssemblerInterface, dense / sparse / "
            "singular / potential / FMM assemblers (compiled Numba kernels), FunctionSpace and Grid memoisation, "
            "GLOBAL_PARAMETERS, FMM caches"
        ],
        "stub": ["exafmm extension -> /verif/fakes/exafmm (exact summation; can be told to fail on the n-th call)"],
        "model": ["fresh-process emulation: new Grid/space objects from raw arrays, empty FMM caches, globals set to the captured vector, parameters=None"],
    }
    assumptions = [
        "fresh emulation equals a truly fresh interpreter (validated in thorough tier on a sample, see evidence key model_validation)",
        "lazy assembly: an operator built with parameters=None is specified by the global values at its first weak_form(); "
        "the mass matrix of a strong form by the global values at the operator's first strong_form()",
        "agreement is rounding-level: 1e-9 relative (1e-8 for strong forms, 5e-5 for single precision)",
    ]

    def __init__(self):
        self.tier = getattr(type(self), "default_tier", "quick")
        self.worker_index = 0
        self.nworkers = 1

    # ---------------------------------------------------------------- generation
    validation_runs = {"quick": 4, "thorough": 32}

    def generate(self, seed, run):
        nval = self.validation_runs.get(self.tier, 0) if self.prop == "C18" else 0
        if run < nval:
            # model validation: an ordinary history whose fresh-emulation values are afterwards recomputed in
            # truly fresh interpreters; spread over the bundles
            inner = self.generate_history(seed, 10**6 + run * 5)
            inner["validate_model"] = True
            return inner
        return self.generate_history(seed, run - nval)

    def generate_history(self, seed, run):
        from workloads import spaces

        r = rng.stream(seed, self.prop, run, "input")
        bi = run % len(BUNDLES)
        b = BUNDLES[bi]
        fault_free = (run // len(BUNDLES)) % 3 == 0  # every third sweep over the bundles runs without F3
        enable = {
            "F1": r.random() < 0.85,
            "F2": r.random() < 0.6,
            "F3": (not fault_free) and r.random() < 0.5,
            "explicit": r.random() < 0.7,
            "single": r.random() < 0.3,
            "fmm": r.random() < (0.9 if b.get("fmm_bias") else 0.7),
        }
        nclients = r.choice([1, 1, 2, 3])
        length = r.randint(5, 22 if self.tier == "quick" else 40)
        g0 = {"family": b["grids"][0], "refinements": 0, "tseed": r.randrange(1 << 30), "renumber": r.random() < 0.5,
              "rotate": r.random() < 0.5, "affine": False}
        g1 = {"family": b["grids"][-1], "refinements": 0, "tseed": r.randrange(1 << 30), "renumber": True,
              "rotate": True, "affine": False, "shift": [15.0, 0.5, -1.0]}
        if r.random() < 0.25:
            g0["family"] = r.choice(b["grids"])
        case = {"bundle": bi, "grids": [g0, g1], "nclients": nclients, "enable": enable}
        init = dict(env.DEFAULT_VECTOR)
        if r.random() < 0.5:
            init["quadrature.regular"] = r.choice([2, 3, 4, 5])
            init["quadrature.singular"] = r.choice([3, 4])
        case["initial_globals"] = init
        pool = []
        for _ in range(3):
            v = dict(env.DEFAULT_VECTOR)
            v["quadrature.regular"] = r.choice([1, 2, 3, 5, 6])
            v["quadrature.singular"] = r.choice([2, 3, 5])
            v["fmm.expansion_order"] = r.choice([3, 5, 8])
            v["fmm.ncrit"] = r.choice([50, 400])
            pool.append(v)
        case["params_pool"] = pool
        case["peer"] = {"permute": r.randrange(1 << 30) if r.random() < 0.3 else None, "chunk": r.choice([7, 64, 256])}

        import random as _random

        from workloads import grids

        raws = [
            grids.make_raw(g["family"], 0, _random.Random(g["tseed"]), g["renumber"], g["rotate"], False, g.get("shift"))
            for g in (g0, g1)
        ]
        ops = []
        nspaces = 0
        nops = 0
        npots = 0
        space_kinds = []

        def add(op):
            op["c"] = r.randrange(nclients)
            ops.append(op)

        def new_space(kind=None, grid=None):
            nonlocal nspaces
            gi = (0 if r.random() < 0.8 else 1) if grid is None else grid
            kind = kind or r.choice(b["kinds"])
            restrict = 0.6 if b.get("segments") else 0.2
            spec = spaces.random_spec(r, raws[gi], [kind], p_restrict=restrict)
            add({"t": "create_space", "grid": gi, "spec": spec})
            space_kinds.append((kind, gi))
            nspaces += 1
            return nspaces - 1

        def find_space(kinds, grid=None):
            cands = [i for i, (k, gi) in enumerate(space_kinds) if k in kinds and (grid is None or gi == grid)]
            if cands and r.random() < 0.8:
                return r.choice(cands)
            return new_space(r.choice(kinds), grid)

        def new_op():
            nonlocal nops
            spec = _vary_wavenumber(copy.deepcopy(r.choice(b["ops"])), r)
            dk, tk = _admissible(spec, b["kinds"])
            if not dk or not tk:
                return
            di = find_space(dk)
            same_grid_only = spec["family"] == "sparse" or any(k in ("DUAL0", "DUAL1", "BC", "RBC") for k in b["kinds"])
            ti = di if (r.random() < 0.5 and space_kinds[di][0] in tk) else find_space(tk, space_kinds[di][1] if same_grid_only or r.random() < 0.8 else None)
            if spec["family"] == "sparse":
                assembler = None
            else:
                roll = r.random()
                if enable["fmm"] and roll < 0.5:
                    assembler = "fmm"
                elif roll < 0.82:
                    assembler = r.choice(["dense", "default_nonlocal"])
                elif roll < 0.87:
                    assembler = "only_diagonal_part"
                else:
                    assembler = "only_singular_part"
            op = {"t": "create_op", "spec": spec, "dom": di, "dual": ti, "assembler": assembler,
                  "precision": ("single" if enable["single"] and r.random() < 0.4 else (None if r.random() < 0.7 else "double")),
                  "params": (r.randrange(3) if enable["explicit"] and r.random() < 0.5 else None)}
            add(op)
            nops += 1

        def new_pot():
            nonlocal npots
            if b.get("pot") is None:
                return
            spec = _vary_wavenumber(copy.deepcopy(b["pot"]), r)
            kinds = [k for k in b["kinds"] if (k in ("RWG", "BC")) == (spec["family"] == "maxwell") and k not in ("SNC", "RBC")]
            if not kinds:
                return
            si = find_space(kinds)
            add({"t": "create_pot", "spec": spec, "space": si, "npoints": r.choice([1, 3, 5]),
                 "assembler": ("fmm" if enable["fmm"] and r.random() < 0.5 else "dense"),
                 "precision": None, "params": (r.randrange(3) if enable["explicit"] and r.random() < 0.5 else None)})
            npots += 1

        def mutate():
            field, values = r.choice(MUTABLE_FIELDS)
            add({"t": "set_global", "field": field, "value": r.choice(values)})

        def fmm_op(params=None, same_as=None):
            """An FMM-mode operator on spaces of the bundle (optionally the spaces of an earlier one)."""
            nonlocal nops
            cands = [sp for sp in b["ops"] if sp["family"] != "sparse"]
            if not cands:
                return None
            spec = _vary_wavenumber(copy.deepcopy(r.choice(cands)), r)
            dk, tk = _admissible(spec, b["kinds"])
            if not dk or not tk:
                return None
            if same_as is not None:
                di, ti = same_as
                if space_kinds[di][0] not in dk or space_kinds[ti][0] not in tk:
                    di = find_space(dk, 0)
                    ti = find_space(tk, 0)
            else:
                di = find_space(dk, 0)
                ti = di if (space_kinds[di][0] in tk and r.random() < 0.6) else find_space(tk, 0)
            add({"t": "create_op", "spec": spec, "dom": di, "dual": ti, "assembler": "fmm", "precision": None, "params": params})
            nops += 1
            return nops - 1, (di, ti)

        def scripted():
            """Sequences that rare history bugs need (bias, cf. 'place faults inside operations')."""
            nonlocal npots, nspaces, nops
            kind = r.choice(["fmm_order_change", "fmm_explicit", "pot_pair", "clear_reuse", "mass_order", "mass_order",
                             "peer_retry", "fmm_other_field", "space_variant_pair", "space_variant_pair", "space_variant_pair"])
            if kind == "space_variant_pair":
                # two spaces on ONE grid that differ in a single option, the same operator on each, one after
                # the other: exposes state keyed by the grid although it depends on the space
                nonlocal nspaces, nops
                cands = [sp for sp in b["ops"]]
                spec = copy.deepcopy(r.choice(cands))
                dk, tk = _admissible(spec, b["kinds"])
                if not dk or not tk:
                    return
                kd = r.choice(dk)
                doms = sorted(set(int(x) for x in raws[0][2]))
                ne = raws[0][1].shape[1]
                base = {"kind": kd}
                variant = {"kind": kd}
                choice = r.choice(["swapped", "swapped", "segments", "support", "boundary"])
                if choice == "swapped" and len(doms) > 1:
                    variant["swapped_normals"] = sorted(r.sample(doms, r.randint(1, len(doms) - 1)))
                elif choice == "segments" and len(doms) > 1:
                    variant["segments"] = sorted(r.sample(doms, r.randint(1, len(doms) - 1)))
                    variant["include_boundary_dofs"] = True
                elif choice == "support" and ne > 3:
                    variant["support_elements"] = sorted(r.sample(range(ne), r.randint(2, ne - 1)))
                    variant["include_boundary_dofs"] = True
                else:
                    variant["include_boundary_dofs"] = True
                    variant["truncate_at_segment_edge"] = r.random() < 0.5
                    if len(doms) > 1:
                        variant["segments"] = sorted(r.sample(doms, r.randint(1, len(doms) - 1)))
                first, second = (base, variant) if r.random() < 0.5 else (variant, base)
                asm = None if spec["family"] == "sparse" else r.choice(["fmm", "fmm", "fmm", "dense", "only_singular_part"] if enable["fmm"] else ["dense", "only_singular_part"])
                idx = []
                for spc in (first, second):
                    add({"t": "create_space", "grid": 0, "spec": spc})
                    space_kinds.append((kd, 0))
                    nspaces += 1
                    si = nspaces - 1
                    ti = si
                    if kd not in tk:
                        add({"t": "create_space", "grid": 0, "spec": dict(spc, kind=tk[0])})
                        space_kinds.append((tk[0], 0))
                        nspaces += 1
                        ti = nspaces - 1
                    add({"t": "create_op", "spec": copy.deepcopy(spec), "dom": si, "dual": ti, "assembler": asm, "precision": None, "params": None})
                    nops += 1
                    idx.append(nops - 1)
                    add({"t": r.choice(["weak_form", "weak_form", "matvec"]), "op": nops - 1, "vseed": r.randrange(1 << 30)})
                    if b.get("pot") is not None and kd not in ("SNC", "RBC") and r.random() < 0.5:
                        okp = (kd in ("RWG", "BC")) == (b["pot"]["family"] == "maxwell")
                        if okp:
                            add({"t": "create_pot", "spec": copy.deepcopy(b["pot"]), "space": si, "npoints": 3,
                                 "assembler": ("fmm" if enable["fmm"] and r.random() < 0.6 else "dense"), "precision": None, "params": None})
                            npots += 1
                            add({"t": "evaluate", "pot": npots - 1, "vseed": r.randrange(1 << 30)})
                add({"t": "matvec", "op": idx[0], "vseed": r.randrange(1 << 30)})
                return
            if kind in ("fmm_order_change", "fmm_other_field"):
                a = fmm_op()
                if a is None:
                    return
                add({"t": "weak_form", "op": a[0]})
                if kind == "fmm_order_change":
                    add({"t": "set_global", "field": "quadrature.regular", "value": r.choice([2, 3, 5, 6])})
                else:
                    f, vals = r.choice(MUTABLE_FIELDS[2:])
                    add({"t": "set_global", "field": f, "value": r.choice(vals)})
                bb = fmm_op(same_as=a[1])
                if bb is not None:
                    add({"t": r.choice(["weak_form", "matvec"]), "op": bb[0], "vseed": r.randrange(1 << 30)})
                add({"t": "matvec", "op": a[0], "vseed": r.randrange(1 << 30), "complex": r.random() < 0.3})
            elif kind == "fmm_explicit":
                a = fmm_op(params=r.randrange(3))
                if a is None:
                    return
                if r.random() < 0.5:
                    add({"t": "set_global", "field": "quadrature.regular", "value": r.choice([2, 3, 4, 5])})
                add({"t": r.choice(["weak_form", "strong_form", "matvec"]), "op": a[0], "vseed": r.randrange(1 << 30)})
            elif kind == "pot_pair":
                if b.get("pot") is None:
                    return
                new_pot()
                if ops[-1]["t"] != "create_pot":
                    return
                first = dict(ops[-1])
                ops[-1]["assembler"] = "fmm"
                add({"t": "evaluate", "pot": npots - 1, "vseed": r.randrange(1 << 30), "complex": r.random() < 0.3})
                add({"t": "set_global", "field": r.choice(["quadrature.regular", "fmm.expansion_order"]), "value": r.choice([3, 5, 6])})
                second = {k: v for k, v in first.items() if k != "c"}
                second["assembler"] = "fmm"
                second["params"] = r.choice([None, r.randrange(3)])
                add(second)
                npots += 1
                add({"t": "evaluate", "pot": npots - 1, "vseed": r.randrange(1 << 30)})
                add({"t": "evaluate", "pot": npots - 2, "vseed": r.randrange(1 << 30)})
            elif kind == "clear_reuse":
                a = fmm_op()
                if a is None:
                    return
                add({"t": "weak_form", "op": a[0]})
                add({"t": "clear_fmm_cache"})
                add({"t": "matvec", "op": a[0], "vseed": r.randrange(1 << 30)})
                bb = fmm_op(same_as=a[1])
                if bb is not None:
                    add({"t": "weak_form", "op": bb[0]})
            elif kind == "mass_order":
                # mass matrix / inverse mass matrix of ONE space across a change of the global order, in varying
                # call orders (the cached mass matrix and its cached factorisation must both follow the order)
                def op_on(si):
                    nonlocal nops
                    kd = space_kinds[si][0]
                    cands = []
                    for sp in b["ops"]:
                        dk, tk = _admissible(sp, b["kinds"])
                        if kd in dk and kd in tk:
                            cands.append(sp)
                    if not cands:
                        return None
                    spec = copy.deepcopy(r.choice(cands))
                    asm = None if spec["family"] == "sparse" else r.choice(["dense", "only_singular_part"])
                    add({"t": "create_op", "spec": spec, "dom": si, "dual": si, "assembler": asm, "precision": None, "params": None})
                    nops += 1
                    return nops - 1

                # prefer a space with piecewise linear functions (order 1 is inexact for them)
                lin = [i for i, (k_, g_) in enumerate(space_kinds) if k_ in ("P1", "DP1", "RWG", "SNC", "DUAL1")]
                si = r.choice(lin) if lin and r.random() < 0.8 else r.randrange(max(1, nspaces))
                a_order = 1
                b_order = r.choice([3, 4, 5])
                if r.random() < 0.4:
                    a_order, b_order = b_order, a_order
                add({"t": "set_global", "field": "quadrature.regular", "value": a_order})
                first = op_on(si) if r.random() < 0.75 else None
                if first is not None:
                    add({"t": "strong_form", "op": first})
                else:
                    add({"t": "mass_matrix", "space": si})
                add({"t": "set_global", "field": "quadrature.regular", "value": b_order})
                steps = ["mass", "strong"]
                r.shuffle(steps)
                for st in steps:
                    if st == "mass":
                        add({"t": "mass_matrix", "space": si})
                    else:
                        k2 = op_on(si)
                        if k2 is not None:
                            add({"t": "strong_form", "op": k2})
                k3 = op_on(si)
                if k3 is not None:
                    add({"t": "strong_form", "op": k3})
            elif kind == "peer_retry":
                if not enable["F3"]:
                    return
                add({"t": "arm_peer_fault", "what": r.choice(["setup", "evaluate"]), "n": 1})
                a = fmm_op()
                if a is None:
                    return
                add({"t": "weak_form", "op": a[0]})
                add({"t": "weak_form", "op": a[0]})
                add({"t": "matvec", "op": a[0], "vseed": r.randrange(1 << 30)})

        new_op()
        if r.random() < 0.5:
            scripted()
        while len(ops) < length:
            roll = r.random()
            if nops == 0 or roll < 0.16:
                new_op()
                # bias: parameter change between construction and first use
                if enable["F1"] and r.random() < 0.4:
                    mutate()
            elif roll < 0.40:
                add({"t": "weak_form", "op": r.randrange(max(1, nops))})
            elif roll < 0.48:
                add({"t": "strong_form", "op": r.randrange(max(1, nops))})
            elif roll < 0.56:
                add({"t": "matvec", "op": r.randrange(max(1, nops)), "vseed": r.randrange(1 << 30), "complex": r.random() < 0.3})
            elif roll < 0.62:
                add({"t": "mass_matrix", "space": r.randrange(max(1, nspaces))})
            elif roll < 0.70:
                new_pot()
            elif roll < 0.78:
                if npots:
                    add({"t": "evaluate", "pot": r.randrange(npots), "vseed": r.randrange(1 << 30), "complex": r.random() < 0.3})
                else:
                    new_pot()
            elif roll < 0.90:
                if enable["F1"]:
                    mutate()
            elif roll < 0.95:
                if enable["F2"]:
                    add({"t": "clear_fmm_cache"})
            else:
                if enable["F3"]:
                    add({"t": "arm_peer_fault", "what": r.choice(["setup", "evaluate", "evaluate"]), "n": r.choice([1, 1, 2, 5])})
            if r.random() < 0.04:
                scripted()
        case["ops"] = ops
        return case

    # ---------------------------------------------------------------- execution
    def execute(self, case):
        import exafmm
        from checks import history

        out = Outcome()
        env.reset_process_state("h")
        try:
            eng = history.Engine(case, out, oracle=self.oracle)
            eng.run()
            if exafmm.CONTROL.faults_fired:
                out.fault("F3_peer_fault_fired", exafmm.CONTROL.faults_fired)
            out.sample = {
                "bundle": case["bundle"],
                "grids": [g["family"] for g in case["grids"]],
                "ops": [self._short(o) for o in case["ops"]],
                "clients": case.get("nclients"),
            }
            out.info["model_cache"] = [history.MODEL_CACHE.hits, history.MODEL_CACHE.misses]
            if case.get("validate_model"):
                self.validate_model(eng, out)
        finally:
            env.reset_process_state("h")
        return out

    def validate_model(self, eng, out):
        """Recompute up to two model values in truly fresh interpreters; disagreement = harness error."""
        import json
        import subprocess
        import tempfile

        import numpy as np

        from checks import common

        script = os.path.join(env.VERIF_ROOT, "checks", "c18_fresh.py")
        reqs = sorted(eng.model_requests, key=lambda rv: 0 if rv[0]["assembler"] == "fmm" else 1)
        for req, val in reqs[: (1 if self.tier == "quick" else 2)]:
            with tempfile.TemporaryDirectory(prefix="c18fresh", dir=env.scratch_dir()) as d:
                rp = os.path.join(d, "req.json")
                op = os.path.join(d, "out.npy")
                with open(rp, "w") as f:
                    json.dump(req, f)
                envv = dict(os.environ)
                envv.pop("NUMBA_NUM_THREADS", None)
                p = subprocess.run([sys.executable, script, rp, op], capture_output=True, text=True, env=envv, timeout=1200)
                if p.returncode != 0:
                    raise RuntimeError("fresh-interpreter validation failed to run: " + p.stderr[-1500:])
                truth = np.load(op)
            bitwise = truth.tobytes() == np.asarray(val).tobytes() and truth.dtype == np.asarray(val).dtype
            ok, err, scale = common.close(val, truth, rtol=1e-13, afloor=1e-15)
            out.probe("model_validated_in_fresh_interpreter")
            if bitwise:
                out.probe("model_validation_bitwise_equal")
            out.events.append(["model_validation", req["spec"].get("op"), req["assembler"], bool(ok), bool(bitwise)])
            if not ok:
                raise RuntimeError(
                    "fresh emulation disagrees with a fresh interpreter (rel %.3g) for %s: the reference model is unsound"
                    % (err / scale if scale else err, json.dumps({k: req[k] for k in ("spec", "assembler", "precision", "vector")}))
                )

    @staticmethod
    def _short(o):
        t = o["t"]
        if t == "set_global":
            return "c%d set %s=%s" % (o.get("c", 0), o["field"], o["value"])
        if t == "create_space":
            extra = [k for k in ("segments", "support_elements", "swapped_normals") if k in o["spec"]]
            return "c%d space g%d %s %s" % (o.get("c", 0), o["grid"], o["spec"]["kind"], ",".join(extra))
        if t == "create_op":
            return "c%d op %s.%s dom=%d dual=%d asm=%s prec=%s params=%s" % (
                o.get("c", 0), o["spec"]["family"], o["spec"]["op"], o["dom"], o["dual"], o["assembler"], o["precision"], o["params"])
        if t == "create_pot":
            return "c%d pot %s.%s space=%d asm=%s params=%s" % (o.get("c", 0), o["spec"]["family"], o["spec"]["op"], o["space"], o["assembler"], o["params"])
        rest = {k: v for k, v in o.items() if k not in ("t", "c", "vseed")}
        return "c%d %s %s" % (o.get("c", 0), t, rest)

    # ---------------------------------------------------------------- classification / minimisation
    def signature(self, case, v):
        sig = {"kind": v.get("kind"), "what": v.get("what"), "exc": v.get("exc")}
        sig.update(v.get("flags") or {})
        ops = case.get("ops", [])
        sig["history_has_set_global_regular"] = any(o["t"] == "set_global" and o["field"] == "quadrature.regular" for o in ops)
        sig["history_has_regular_order_1"] = any(
            o["t"] == "set_global" and o["field"] == "quadrature.regular" and o["value"] == 1 for o in ops
        ) or case.get("initial_globals", {}).get("quadrature.regular") == 1
        return sig

    def violation_class(self, v):
        fl = v.get("flags") or {}
        return (v.get("kind"), v.get("what"), fl.get("assembler"), fl.get("family"), bool(fl.get("potential")))

    def minimise(self, case, violation):
        """ddmin over the op list, then argument simplification, keeping the same violation class."""
        target = self.violation_class(violation)

        def fails(c):
            try:
                oc = self.execute(c)
            except Exception:  # noqa: BLE001
                return False
            return any(self.violation_class(v) == target for v in oc.violations)

        cur = copy.deepcopy(case)
        ops = cur["ops"]
        n = 2
        budget = 150
        while len(ops) >= 2 and budget > 0:
            chunk = max(1, len(ops) // n)
            reduced = False
            for start in range(0, len(ops), chunk):
                cand_ops = ops[:start] + ops[start + chunk:]
                if not cand_ops:
                    continue
                cand = dict(cur, ops=cand_ops)
                budget -= 1
                if fails(cand):
                    ops = cand_ops
                    cur = cand
                    n = max(n - 1, 2)
                    reduced = True
                    break
                if budget <= 0:
                    break
            if not reduced:
                if chunk == 1:
                    break
                n = min(len(ops), n * 2)
        # argument simplification
        simplifications = [
            lambda c: c.pop("validate_model", None),
            lambda c: c.update(peer={"permute": None, "chunk": 256}),
            lambda c: c.update(initial_globals=dict(env.DEFAULT_VECTOR)),
            lambda c: [g.update(renumber=False, rotate=False) for g in c["grids"]],
            lambda c: [o["spec"].pop("swapped_normals", None) for o in c["ops"] if o["t"] == "create_space"],
            lambda c: [o["spec"].pop("segments", None) for o in c["ops"] if o["t"] == "create_space"],
            lambda c: [o["spec"].pop("support_elements", None) for o in c["ops"] if o["t"] == "create_space"],
            lambda c: [(o["spec"].pop("include_boundary_dofs", None), o["spec"].pop("truncate_at_segment_edge", None)) for o in c["ops"] if o["t"] == "create_space"],
            lambda c: [o.update(precision=None) for o in c["ops"] if o["t"] == "create_op"],
            lambda c: [o.update(complex=False) for o in c["ops"] if o["t"] in ("matvec", "evaluate")],
            lambda c: [o.update(c=0) for o in c["ops"]],
        ]
        for simp in simplifications:
            cand = copy.deepcopy(cur)
            try:
                simp(cand)
            except Exception:  # noqa: BLE001
                continue
            if cand != cur and budget > 0:
                budget -= 1
                if fails(cand):
                    cur = cand
        return cur


def factory():
    return C18Check()


def main(argv=None):
    import argparse

    from sim import runner

    ap = argparse.ArgumentParser()
    ap.add_argument("--tier", default=os.environ.get("VERIF_TIER", "quick"))
    ap.add_argument("--runs", type=int, default=None)
    ap.add_argument("--workers", type=int, default=None)
    ap.add_argument("--replay", default=None)
    ap.add_argument("--digests", default=None, help="determinism aid: print run digests for the given runs, e.g. 0-15")
    ap.add_argument("--repeat", type=int, default=1)
    args = ap.parse_args(argv)
    if args.replay:
        args.replay = os.path.abspath(args.replay)
    env.bootstrap(threads=1)
    C18Check.default_tier = args.tier
    if args.replay:
        return runner.replay(factory(), args.replay)
    if args.digests:
        chk = factory()
        chk.tier = args.tier
        return runner.print_digests(chk, runner.parse_runs(args.digests), args.repeat)
    runs = args.runs if args.runs is not None else (320 if args.tier == "quick" else 20000)
    return runner.run(factory, PROP, args.tier, runs, nworkers=args.workers)


if __name__ == "__main__":
    sys.exit(main())
