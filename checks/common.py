"""Helpers shared by the C17 / C18 checks: numerical comparison and dense counterparts."""

import copy

import numpy as np


def rel_err(a, b):
    """Return (error, tolerance-scale) for comparing a with reference b."""
    a = np.asarray(a)
    b = np.asarray(b)
    if a.shape != b.shape:
        return float("inf"), 1.0
    if not (np.all(np.isfinite(a)) and np.all(np.isfinite(b))):
        # non-finite on both sides in the same places is "equal"
        if np.array_equal(np.isfinite(a), np.isfinite(b)):
            fa = np.where(np.isfinite(a), a, 0)
            fb = np.where(np.isfinite(b), b, 0)
            return rel_err(fa, fb)
        return float("inf"), 1.0
    err = float(np.linalg.norm((a - b).ravel()))
    scale = max(float(np.linalg.norm(a.ravel())), float(np.linalg.norm(b.ravel())))
    return err, scale


def close(a, b, rtol=1e-9, afloor=1e-11):
    """Rounding-level agreement: ||a-b|| <= rtol*max(||a||,||b||) + afloor*sqrt(size)."""
    err, scale = rel_err(a, b)
    size = max(1, int(np.asarray(b).size))
    tol = rtol * scale + afloor * np.sqrt(size)
    return err <= tol, err, scale


def close_single(a, b, rtol=5e-5, afloor=3e-7):
    """Single-precision agreement, entrywise: max|a-b| <= rtol*max|b| + afloor.

    The absolute floor is float32 resolution of the intermediate sums of a BEM entry on O(1)-sized grids
    (terms of size ~1e-2..1 accumulated in float32): an entry that is small through cancellation cannot be
    expected to carry a relative accuracy of 1e-7.
    """
    a = np.asarray(a)
    b = np.asarray(b)
    if a.shape != b.shape:
        return False, float("inf"), 1.0
    if a.size == 0:
        return True, 0.0, 0.0
    if not (np.all(np.isfinite(a)) and np.all(np.isfinite(b))):
        return close(a, b, rtol=rtol, afloor=afloor)
    err = float(np.max(np.abs(a - b)))
    scale = float(max(np.max(np.abs(a)), np.max(np.abs(b))))
    return err <= rtol * scale + afloor, err, scale


def seeded_vector(n, seed, complex_=False):
    rs = np.random.RandomState(seed % (2**32))
    x = rs.uniform(-1, 1, n)
    if complex_:
        x = x + 1j * rs.uniform(-1, 1, n)
    return x


def untransformed_clone(space):
    """Element-wise clone of a space without its dof transformation (harness-built).

    Same grid, local2global, multipliers, shapeset and evaluator; the dof transformation is
    the identity on the grid dofs.  Used to obtain a dense counterpart T' A T for spaces the
    dense assembler rejects by design.
    """
    from scipy.sparse import identity
    from bempp_cl.api.utils.helpers import create_unique_id

    clone = copy.copy(space)
    clone._dof_transformation = identity(space.grid_dof_count, dtype=np.float64, format="csr")
    clone._requires_dof_transformation = False
    clone._id = create_unique_id()
    clone._hash_string = None
    clone._color_map = None
    clone._sorted_indices = None
    clone._indexptr = None
    clone._mass_matrix = None
    clone._inverse_mass_matrix = None
    if space._localised_space is space:
        clone._localised_space = clone
    return clone


def dense_counterpart_matrix(spec, dom, dual, parameters=None, precision=None):
    """Dense-mode matrix of a boundary operator for any pair of spaces.

    For plain spaces this is `operator(..., assembler='dense').weak_form().to_dense()`.
    For spaces with a dof transformation (barycentric / dual) it is T_dual' A T_dom with A
    assembled densely on untransformed clones of the compatible representations.
    """
    from bempp_cl.api.space.space import return_compatible_representation
    from workloads import ops

    adom, adual = return_compatible_representation(dom, dual)
    if not (adom.requires_dof_transformation or adual.requires_dof_transformation):
        op = ops.build_boundary(spec, adom, adom, adual, "dense", parameters, precision)
        return op.weak_form().to_dense(), "direct"
    try:
        cdom = untransformed_clone(adom)
        cdual = cdom if adual is adom else untransformed_clone(adual)
    except AttributeError as e:
        # the clone is built from private attributes of FunctionSpace; if a refactoring renamed them there is
        # no dense counterpart for these spaces (the caller skips the comparison)
        raise ValueError("no dense counterpart: cannot clone the space (%s)" % e)
    op = ops.build_boundary(spec, cdom, cdom, cdual, "dense", parameters, precision)
    A = op.weak_form().to_dense()
    Td = adom.dof_transformation
    Tt = adual.dof_transformation
    M = Tt.T @ (Td.T @ A.T).T
    return np.asarray(M), "clone"
