"""Real-code cross-check for C16 (model validation, not the deciding step).

One configuration per process: the operator is assembled by the REAL compiled Numba kernels
under numba.set_num_threads(n) for n in {1, 2, 7, 16} (twice each) and the results are compared
bitwise; the same configuration is then assembled by the interpreted, simulator-owned kernels
(serial schedule) and must agree with the compiled result to rounding, which validates the
closure conversion.  Prints one JSON line.

This is observation of real executions whose interleaving nobody controls, hence not the
deciding step; a *stable* bitwise mismatch between thread counts is nevertheless a literal
violation of the property and is reported as one by checks/c16.py.
"""

import json
import os
import sys

CASES = [
    {"mode": "dense", "op": {"family": "laplace", "op": "single_layer"}, "grid": "cube", "test": {"kind": "P1"}, "trial": {"kind": "DP0"}},
    {"mode": "dense", "op": {"family": "laplace", "op": "hypersingular"}, "grid": "octahedron", "test": {"kind": "P1"}, "trial": {"kind": "P1"}},
    {"mode": "dense", "op": {"family": "helmholtz", "op": "double_layer", "wavenumber": [1.5, 0.7]}, "grid": "cube", "test": {"kind": "P1", "segments": [1, 2, 3], "include_boundary_dofs": True, "truncate_at_segment_edge": False}, "trial": {"kind": "DP1"}},
    {"mode": "dense", "op": {"family": "maxwell", "op": "electric_field", "wavenumber": [2.0, 0.0]}, "grid": "octahedron", "test": {"kind": "SNC"}, "trial": {"kind": "RWG"}},
    {"mode": "sparse", "op": {"family": "sparse", "op": "identity"}, "grid": "cube", "test": {"kind": "P1"}, "trial": {"kind": "P1"}},
    {"mode": "potential", "op": {"family": "helmholtz", "op": "single_layer", "wavenumber": [2.5, 0.0]}, "grid": "octahedron", "test": {"kind": "P1"}, "trial": {"kind": "P1"}},
    {"mode": "dense", "op": {"family": "helmholtz", "op": "hypersingular", "wavenumber": [2.5, 0.0]}, "grid": "torus", "test": {"kind": "P1"}, "trial": {"kind": "P1"}},
    {"mode": "dense", "op": {"family": "modified_helmholtz", "op": "hypersingular", "wavenumber": 1.3}, "grid": "cube", "test": {"kind": "DP1"}, "trial": {"kind": "P1"}},
    {"mode": "dense", "op": {"family": "maxwell", "op": "magnetic_field", "wavenumber": [1.5, 0.5]}, "grid": "cube", "test": {"kind": "SNC", "segments": [1, 2, 5], "include_boundary_dofs": True}, "trial": {"kind": "RWG"}},
    {"mode": "singular", "op": {"family": "laplace", "op": "adjoint_double_layer"}, "grid": "torus", "test": {"kind": "DP1"}, "trial": {"kind": "P1"}},
    {"mode": "potential", "op": {"family": "maxwell", "op": "electric_field", "wavenumber": [2.0, 0.0]}, "grid": "octahedron", "test": {"kind": "RWG"}, "trial": {"kind": "RWG"}},
    {"mode": "far_field", "op": {"family": "maxwell", "op": "magnetic_field", "wavenumber": [2.0, 0.0]}, "grid": "cube", "test": {"kind": "RWG"}, "trial": {"kind": "RWG"}},
    {"mode": "dense", "op": {"family": "laplace", "op": "double_layer"}, "grid": "screen2", "test": {"kind": "P1", "include_boundary_dofs": True}, "trial": {"kind": "DP0", "swapped_normals": [1]}},
    {"mode": "sparse", "op": {"family": "sparse", "op": "identity"}, "grid": "octahedron", "test": {"kind": "RBC"}, "trial": {"kind": "BC"}},
    {"mode": "dense", "op": {"family": "helmholtz", "op": "single_layer", "wavenumber": [1.5, 0.7]}, "grid": "fan", "test": {"kind": "DP0"}, "trial": {"kind": "P1", "include_boundary_dofs": True}},
    {"mode": "fmm", "op": {"family": "laplace", "op": "single_layer"}, "grid": "octahedron", "test": {"kind": "P1"}, "trial": {"kind": "P1"}},
]

THREADS = (1, 2, 7, 16)


def main():
    idx = int(sys.argv[1])
    os.environ["NUMBA_NUM_THREADS"] = "16"
    sys.path.insert(0, os.path.dirname(os.path.dirname(os.path.abspath(__file__))))
    from sim import env

    env.setup_paths()
    import warnings

    warnings.filterwarnings("ignore")
    import contextlib
    import io

    with contextlib.redirect_stdout(io.StringIO()):
        import bempp_cl.api
    env.install_id_counter()
    env.scratch_dir()
    import numba
    import numpy as np

    from checks import c16, common
    from sim import parsim, rng
    from sim.runner import Outcome
    from workloads import grids, ops, spaces

    case = CASES[idx % len(CASES)]
    res = {"case": idx, "label": ops.op_label(case["op"]), "mode": case["mode"], "layer": numba.config.THREADING_LAYER}
    bempp_cl.api.GLOBAL_PARAMETERS.quadrature.regular = 3
    bempp_cl.api.GLOBAL_PARAMETERS.quadrature.singular = 3
    bempp_cl.api.GLOBAL_PARAMETERS.fmm.dense_evaluation = True
    raw = grids.make_raw(case["grid"], 1 if case["grid"] in ("octahedron", "cube", "screen2", "fan") else 0)

    def assemble():
        grid = grids.to_grid(raw)
        trial = spaces.make_space(grid, case["trial"])
        test = trial if case["test"] == case["trial"] else spaces.make_space(grid, case["test"])
        spec = case["op"]
        mode = case["mode"]
        if mode in ("dense", "sparse", "singular"):
            asm = {"dense": "dense", "sparse": None, "singular": "only_singular_part"}[mode]
            return np.asarray(ops.build_boundary(spec, trial, trial, test, asm).weak_form().to_dense())
        x = common.seeded_vector(trial.global_dof_count, 7, spec["family"] != "laplace")
        if mode == "fmm":
            bempp_cl.api.clear_fmm_cache()
            return np.asarray(ops.build_boundary(spec, trial, trial, test, "fmm").weak_form() @ np.real(x))
        points = ops.probe_points(5, raw)
        fun = bempp_cl.api.GridFunction(trial, coefficients=x)
        if mode == "potential":
            return np.asarray(ops.build_potential(spec, trial, points, "dense").evaluate(fun))
        pts = points / np.linalg.norm(points, axis=0)
        return np.asarray(ops.build_far_field(spec, trial, pts).evaluate(fun))

    digests = {}
    ref = None
    for n in THREADS:
        for rep in range(2):
            numba.set_num_threads(n)
            a = assemble()
            if ref is None:
                ref = a
            digests["%d/%d" % (n, rep)] = rng.array_digest(a)
    res["thread_digests"] = digests
    res["bitwise_equal_across_threads"] = len(set(digests.values())) == 1
    res["elements"] = int(raw[1].shape[1])
    # interpreted (simulator-owned, serial) versus compiled
    out = Outcome()
    sim = parsim.Sim(1, {"K": 0}, out)
    sim.install()
    try:
        b = assemble()
    finally:
        sim.uninstall()
    ok, err, scale = common.close(b, ref, rtol=1e-10, afloor=1e-13)
    res["interpreted_vs_compiled_rel"] = (err / scale) if scale else 0.0
    res["interpreted_agrees"] = bool(ok)
    res["regions"] = out.probes.get("regions_explored", 0)
    print("CROSSCHECK " + json.dumps(res))
    _ = c16


if __name__ == "__main__":
    main()
