"""Sensitivity and quietness self-test of the checks (development aid, not a registered command).

Every mutant of mutants/mutants.py is applied to a scratch git worktree of /repo (outside /repo
and /verif, removed afterwards); the corresponding quick check is run against it through
VERIF_REPO.  A "break" mutant must make the check exit 1 and its replay file must reproduce;
a "quiet" mutant must leave it at exit 0.  Evidence and replay files of these runs go to a
temporary directory, never to /verif/evidence.
"""

import argparse
import json
import os
import shutil
import subprocess
import sys
import tempfile
import time
from concurrent.futures import ThreadPoolExecutor

HERE = os.path.dirname(os.path.dirname(os.path.abspath(__file__)))
sys.path.insert(0, HERE)


def run_one(m, repo, runs, workers, keep):
    tmp = tempfile.mkdtemp(prefix="verif_mut_")
    wt = os.path.join(tmp, "wt")
    out = {"id": m["id"], "prop": m["prop"], "kind": m["kind"]}
    t0 = time.time()
    try:
        subprocess.run(["git", "-C", repo, "worktree", "add", "-q", "--detach", wt, "HEAD"], check=True, capture_output=True)
        path = os.path.join(wt, m["file"])
        src = open(path).read()
        nmatch = src.count(m["old"])
        if nmatch < 1 or (nmatch != 1 and not m.get("first_only")):
            out["result"] = "MUTANT-DOES-NOT-APPLY (%d matches)" % nmatch
            return out
        open(path, "w").write(src.replace(m["old"], m["new"], 1))
        env = dict(os.environ)
        env["VERIF_REPO"] = wt
        env["VERIF_EVIDENCE_DIR"] = os.path.join(tmp, "evidence")
        env["VERIF_REPLAY_DIR"] = os.path.join(tmp, "replays")
        cmd = [os.path.join(HERE, "bin", "check"), m["prop"], "--tier", "quick", "--workers", str(workers)]
        if runs:
            cmd += ["--runs", str(runs)]
        if m["prop"] == "C16":
            cmd += ["--no-crosscheck"]
        p = subprocess.run(cmd, capture_output=True, text=True, env=env, cwd=HERE)
        out["exit"] = p.returncode
        lines = [ln for ln in p.stdout.splitlines() if ln.startswith("VIOLATION")]
        out["violations"] = len(lines)
        out["tail"] = p.stdout.strip().splitlines()[-1:] if p.stdout.strip() else []
        want = 1 if m["kind"] == "break" else 0
        ok = p.returncode == want
        if m["kind"] == "break" and ok and lines:
            # the replay file must reproduce in a fresh interpreter
            rp = lines[0].split("replay=")[1].strip()
            q = subprocess.run([os.path.join(HERE, "bin", "check"), m["prop"], "--replay", rp], capture_output=True, text=True, env=env, cwd=HERE)
            out["replay_exit"] = q.returncode
            ok = ok and q.returncode == 1
            try:
                out["first_violation"] = json.load(open(rp))["violations"][0].get("kind")
            except Exception:  # noqa: BLE001
                pass
        if p.returncode == 2:
            out["stderr"] = p.stderr[-1200:]
        out["result"] = "OK" if ok else "UNEXPECTED"
    finally:
        subprocess.run(["git", "-C", repo, "worktree", "remove", "--force", wt], capture_output=True)
        if not keep:
            shutil.rmtree(tmp, ignore_errors=True)
        out["wall_s"] = round(time.time() - t0, 1)
    return out


def main():
    from mutants.mutants import MUTANTS

    ap = argparse.ArgumentParser()
    ap.add_argument("--only", default=None, help="comma separated mutant ids or property ids")
    ap.add_argument("--runs", type=int, default=0)
    ap.add_argument("--jobs", type=int, default=2)
    ap.add_argument("--workers", type=int, default=8)
    ap.add_argument("--repo", default="/repo")
    ap.add_argument("--keep", action="store_true")
    args = ap.parse_args()
    sel = MUTANTS
    if args.only:
        want = set(args.only.split(","))
        sel = [m for m in MUTANTS if m["id"] in want or m["prop"] in want or m["kind"] in want]
    bad = 0
    with ThreadPoolExecutor(max_workers=args.jobs) as ex:
        for res in ex.map(lambda m: run_one(m, args.repo, args.runs, args.workers, args.keep), sel):
            print(json.dumps(res), flush=True)
            if res.get("result") != "OK":
                bad += 1
    print("sensitivity self-test: %d mutants, %d unexpected" % (len(sel), bad))
    return 1 if bad else 0


if __name__ == "__main__":
    sys.exit(main())
