"""Shipped FMM reference vectors (test/data/fmm_*.npy) reproduced with the simulated peer.

This part is a plain stored-value comparison (labelled as such in the evidence); the
tolerance is the one the repository's own tests state: assert_allclose(rtol=2e-3).
"""

import os

import numpy as np

TOL = 2e-3

_B = "boundary"
_P = "potential"

# (file, kind, family, op, wavenumber, space kind, tier)
SINGLE_GRID = [
    ("fmm_laplace_single", _B, "laplace", "single_layer", None, "P1"),
    ("fmm_laplace_double", _B, "laplace", "double_layer", None, "P1"),
    ("fmm_laplace_adjoint", _B, "laplace", "adjoint_double_layer", None, "P1"),
    ("fmm_laplace_hyper", _B, "laplace", "hypersingular", None, "P1"),
    ("fmm_helmholtz_single", _B, "helmholtz", "single_layer", [1.5, 0.0], "P1"),
    ("fmm_helmholtz_double", _B, "helmholtz", "double_layer", [1.5, 0.0], "P1"),
    ("fmm_helmholtz_adjoint", _B, "helmholtz", "adjoint_double_layer", [1.5, 0.0], "P1"),
    ("fmm_helmholtz_hyper", _B, "helmholtz", "hypersingular", [1.5, 0.0], "P1"),
    ("fmm_modified_helmholtz_single", _B, "modified_helmholtz", "single_layer", 1.5, "P1"),
    ("fmm_modified_helmholtz_double", _B, "modified_helmholtz", "double_layer", 1.5, "P1"),
    ("fmm_modified_helmholtz_adjoint", _B, "modified_helmholtz", "adjoint_double_layer", 1.5, "P1"),
    ("fmm_modified_helmholtz_hyper", _B, "modified_helmholtz", "hypersingular", 1.5, "P1"),
    ("fmm_maxwell_electric", _B, "maxwell", "electric_field", [1.5, 0.0], "RWG"),
    ("fmm_maxwell_magnetic", _B, "maxwell", "magnetic_field", [1.5, 0.0], "RWG"),
    ("fmm_laplace_potential_single", _P, "laplace", "single_layer", None, "P1"),
    ("fmm_laplace_potential_double", _P, "laplace", "double_layer", None, "P1"),
    ("fmm_helmholtz_potential_single", _P, "helmholtz", "single_layer", [1.5, 0.0], "P1"),
    ("fmm_helmholtz_potential_double", _P, "helmholtz", "double_layer", [1.5, 0.0], "P1"),
    ("fmm_modified_potential_helmholtz_single", _P, "modified_helmholtz", "single_layer", 1.5, "P1"),
    ("fmm_modified_potential_helmholtz_double", _P, "modified_helmholtz", "double_layer", 1.5, "P1"),
    ("fmm_maxwell_potential_electric", _P, "maxwell", "electric_field", [1.5, 0.0], "RWG"),
    ("fmm_maxwell_potential_magnetic", _P, "maxwell", "magnetic_field", [1.5, 0.0], "RWG"),
]
TWO_GRID = [
    ("fmm_two_mesh_laplace_single", "two", "laplace", "single_layer", None, "P1"),
    ("fmm_two_mesh_laplace_hyper", "two", "laplace", "hypersingular", None, "P1"),
]


def reference_cases(tier):
    rows = list(SINGLE_GRID)
    if tier == "thorough":
        rows += TWO_GRID
    cases = []
    for f, kind, fam, op, w, sk in rows:
        spec = {"family": fam, "op": op}
        if w is not None:
            spec["wavenumber"] = w
        cases.append({"kind": "reference", "file": f, "ref_kind": kind, "op": spec, "space_kind": sk})
    return cases


def data_dir():
    from sim import env

    return os.path.join(env.repo_root(), "test", "data")


def run_reference(case, out):
    import bempp_cl.api
    import exafmm
    from workloads import ops, spaces

    d = data_dir()
    spec = case["op"]
    # the repository's test module sets expansion order 10 and otherwise default parameters
    bempp_cl.api.GLOBAL_PARAMETERS.fmm.expansion_order = 10
    ref = np.load(os.path.join(d, case["file"] + ".npy"))
    label = "reference:" + case["file"]
    sk = case["space_kind"]
    try:
        if case["ref_kind"] == "two":
            grid1 = bempp_cl.api.import_grid(os.path.join(d, "fmm_grid1.msh"))
            grid2 = bempp_cl.api.import_grid(os.path.join(d, "fmm_grid2.msh"))
            s1 = spaces.make_space(grid1, {"kind": "P1"})
            s2 = spaces.make_space(grid2, {"kind": "P1"})
            vec = np.load(os.path.join(d, "fmm_two_mesh_vec.npy"))
            val = ops.build_boundary(spec, s1, s2, s2, "fmm").weak_form() @ vec
        else:
            grid = bempp_cl.api.import_grid(os.path.join(d, "fmm_grid.msh"))
            space = spaces.make_space(grid, {"kind": sk})
            vec = np.load(os.path.join(d, "fmm_p1_vec.npy" if sk == "P1" else "fmm_rwg_vec.npy"))
            if case["ref_kind"] == "boundary":
                dual = space if sk == "P1" else spaces.make_space(grid, {"kind": "SNC"})
                val = ops.build_boundary(spec, space, space, dual, "fmm").weak_form() @ vec
            else:
                points = np.load(os.path.join(d, "fmm_potential_points.npy"))
                fun = bempp_cl.api.GridFunction(space, coefficients=vec)
                val = ops.build_potential(spec, space, points, "fmm").evaluate(fun)
    except Exception as e:  # noqa: BLE001
        import traceback

        out.events.append(["reference_raises", case["file"], type(e).__name__])
        out.violate(
            "fmm_raises", op=label, exc=type(e).__name__, msg=str(e)[:300], flags={"reference": True},
            tb=traceback.format_exc(limit=6)[-1500:],
        )
        return
    out.steps += 5 + exafmm.CONTROL.count["evaluate"]
    out.nontrivial = True
    out.probe("reference_vectors")
    ok = bool(np.allclose(val, ref, rtol=TOL, atol=0))
    denom = np.where(np.abs(ref) > 0, np.abs(ref), 1.0)
    worst = float(np.max(np.abs(val - ref) / denom))
    out.events.append(["reference", case["file"], ok])
    out.state_keys.append("reference:" + case["file"])
    out.info["worst_rel"] = worst
    if not ok:
        out.violate("reference_vector_not_reproduced", op=label, worst_elementwise_rel=worst, rtol=TOL, flags={"reference": True})
    out.sample = {"reference_file": case["file"] + ".npy", "worst_elementwise_rel_err": worst, "rtol": TOL, "n": int(ref.size)}
