"""Compute one model request in a truly fresh interpreter (validation of the fresh-process emulation).

usage: c18_fresh.py request.json out.npy
Nothing of the harness's global-state handling is used here: default ids, default caches,
GLOBAL_PARAMETERS set to the requested vector, parameters=None.
"""

import json
import os
import sys


def main():
    req_path, out_path = sys.argv[1], sys.argv[2]
    root = os.path.dirname(os.path.dirname(os.path.abspath(__file__)))
    repo = os.environ.get("VERIF_REPO")
    if repo:
        sys.path.insert(0, os.path.abspath(repo))
    sys.path.insert(1 if repo else 0, os.path.join(root, "fakes"))
    sys.path.append(root)
    import warnings

    warnings.filterwarnings("ignore")
    import contextlib
    import io

    with contextlib.redirect_stdout(io.StringIO()):
        import bempp_cl.api
    import numpy as np

    from workloads import grids, ops, spaces

    with open(req_path) as f:
        req = json.load(f)
    os.chdir(os.path.dirname(os.path.abspath(out_path)))
    P = bempp_cl.api.GLOBAL_PARAMETERS
    for key, val in req["vector"].items():
        a, b = key.split(".")
        setattr(getattr(P, a), b, val)
    made = {}

    def space(s):
        gi = s["grid_index"]
        if gi not in made:
            made[gi] = grids.to_grid(grids.raw_from_json(req["grids"][gi]))
        return spaces.make_space(made[gi], s["spec"])

    dom = space(req["dom"])
    dual = dom if req["same"] else space(req["dual"])
    op = ops.build_boundary(req["spec"], dom, dom, dual, req["assembler"], None, req["precision"])
    val = np.asarray(op.weak_form().to_dense())
    np.save(out_path, val)


if __name__ == "__main__":
    main()
