"""exafmm.modified_helmholtz stand-in."""
from . import _core

globals().update(_core.make_module_api("modified_helmholtz"))
ModifiedHelmholtzFmm = _core.ModifiedHelmholtzFmm
