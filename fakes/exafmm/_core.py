"""In-process stand-in for the `exafmm` extension (the simulated peer).

It implements exactly the calls `bempp_cl/api/fmm/exafmm.py` makes and nothing else.
The far field is *exact*: for targets x_i, sources y_j and charges q_j it returns the
(n_targets, 4) array [sum_j G q_j, sum_j grad_x G q_j] with the r = 0 terms dropped, as a
tree code does.  The formulas are written from the textbook Green's functions, not copied
from the repository.

The simulator owns this peer through the module-level `CONTROL` object:

* every call is appended to CONTROL.calls (event log; no clock, no PRNG draw in logging)
* CONTROL.fail_on = {"setup": n} / {"evaluate": n}: the n-th such call raises
  (allocation / scratch file failure of the peer) -- fault kind F3
* CONTROL.permute_seed: evaluate() internally permutes sources and targets (legal for a
  tree code, changes rounding only) -- variation V4
* CONTROL.chunk: number of targets per evaluation block -- variation V5
"""

import os as _os
import warnings as _warnings

import numpy as _np

_INV4PI = 0.25 / _np.pi


class PeerFault(RuntimeError):
    """Raised by the fake peer when the simulator injected a failure."""


class _Control(object):
    def __init__(self):
        self.reset()

    def reset(self):
        self.calls = []
        self.count = {"setup": 0, "evaluate": 0, "update_charges": 0, "clear_values": 0, "init": 0}
        self.fail_on = {}
        self.faults_fired = 0
        self.permute_seed = None
        self.chunk = 256
        self.complex_charges_to_real_kernel = 0
        self.touch_files = True
        self.log_calls = False

    def note(self, what, *info):
        self.count[what] = self.count.get(what, 0) + 1
        if self.log_calls:
            self.calls.append((what,) + info)
        n = self.fail_on.get(what)
        if n is not None and self.count[what] == n:
            self.faults_fired += 1
            raise PeerFault("injected peer fault in %s call #%d" % (what, n))


CONTROL = _Control()


class _Sources(object):
    def __init__(self, points, charges):
        self.points = _np.array(points, dtype=_np.float64, copy=True)
        if self.points.ndim != 2 or self.points.shape[1] != 3:
            raise TypeError("sources must be an (N, 3) array")
        self.charges = charges


class _Targets(object):
    def __init__(self, points):
        self.points = _np.array(points, dtype=_np.float64, copy=True)
        if self.points.ndim != 2 or self.points.shape[1] != 3:
            raise TypeError("targets must be an (N, 3) array")


class _Fmm(object):
    def __init__(self, kind, expansion_order, ncrit, wavenumber, filename):
        self.kind = kind
        self.p = int(expansion_order)
        self.ncrit = int(ncrit)
        self.wavenumber = wavenumber
        self.filename = filename


class _Tree(object):
    def __init__(self, sources, targets, fmm, charge_dtype):
        self.sources = sources.points
        self.targets = targets.points
        self.charge_dtype = charge_dtype
        self.charges = _np.zeros(len(self.sources), dtype=charge_dtype)
        self.values = None


def _init_sources(points, charges):
    CONTROL.note("init")
    return _Sources(points, charges)


def _init_targets(points):
    CONTROL.note("init")
    return _Targets(points)


def _setup(sources, targets, fmm, charge_dtype):
    CONTROL.note("setup", fmm.kind, len(sources.points), len(targets.points))
    if fmm.filename is not None and CONTROL.touch_files:
        # the real library writes its precomputation matrices here
        with open(fmm.filename, "ab"):
            pass
    return _Tree(sources, targets, fmm, charge_dtype)


def _update_charges(tree, charges):
    CONTROL.note("update_charges")
    charges = _np.asarray(charges)
    if charges.shape != (len(tree.sources),):
        raise ValueError(
            "update_charges: expected %d charges, got shape %s" % (len(tree.sources), charges.shape)
        )
    if _np.iscomplexobj(charges) and tree.charge_dtype == _np.float64:
        # pybind11's array_t<double> force-casts: the imaginary part is discarded
        CONTROL.complex_charges_to_real_kernel += 1
        with _warnings.catch_warnings():
            _warnings.simplefilter("ignore")
            charges = charges.astype(_np.float64)
    tree.charges = _np.array(charges, dtype=tree.charge_dtype, copy=True)


def _clear_values(tree):
    CONTROL.note("clear_values")
    tree.values = None


def _kernel_block(kind, wavenumber, x, y):
    """Return (G, factor) for target block x (m,3), sources y (n,3).

    grad_x G = factor * d, d = x - y.  Entries with r = 0 are zero.
    """
    d = x[:, None, :] - y[None, :, :]
    r = _np.sqrt(_np.einsum("ijk,ijk->ij", d, d))
    zero = r == 0
    rs = _np.where(zero, 1.0, r)
    if kind == "laplace":
        g = _INV4PI / rs
        fac = -g / (rs * rs)
    elif kind == "helmholtz":
        k = complex(wavenumber)
        g = _INV4PI * _np.exp(1j * k * rs) / rs
        fac = (1j * k - 1.0 / rs) * g / rs
    elif kind == "modified_helmholtz":
        w = float(_np.real(wavenumber))
        g = _INV4PI * _np.exp(-w * rs) / rs
        fac = (-w - 1.0 / rs) * g / rs
    else:  # pragma: no cover
        raise ValueError(kind)
    g = _np.where(zero, 0, g)
    fac = _np.where(zero, 0, fac)
    return g, fac, d


def _evaluate(tree, fmm):
    CONTROL.note("evaluate", fmm.kind)
    x = tree.targets
    y = tree.sources
    q = tree.charges
    nt = len(x)
    out_dtype = _np.complex128 if fmm.kind == "helmholtz" else _np.float64
    tperm = sperm = None
    if CONTROL.permute_seed is not None:
        rng = _np.random.RandomState(CONTROL.permute_seed % (2**32))
        tperm = rng.permutation(nt)
        sperm = rng.permutation(len(y))
        x = x[tperm]
        y = y[sperm]
        q = q[sperm]
    result = _np.zeros((nt, 4), dtype=out_dtype)
    chunk = max(1, int(CONTROL.chunk))
    for start in range(0, nt, chunk):
        stop = min(nt, start + chunk)
        g, fac, d = _kernel_block(fmm.kind, fmm.wavenumber, x[start:stop], y)
        result[start:stop, 0] = g @ q
        fq = fac * q[None, :]
        for c in range(3):
            result[start:stop, 1 + c] = _np.einsum("ij,ij->i", fq, d[:, :, c])
    if tperm is not None:
        unperm = _np.empty_like(result)
        unperm[tperm] = result
        result = unperm
    tree.values = result
    # a fresh array on every call (bempp subtracts the near field in place)
    return result.copy()


def make_module_api(kind):
    """Build the function table of one exafmm submodule."""
    charge_dtype = _np.complex128 if kind == "helmholtz" else _np.float64

    # extra positional / keyword arguments of the real extension (e.g. a verbosity flag) are accepted and ignored
    def init_sources(points, charges, *args, **kwargs):
        return _init_sources(points, charges)

    def init_targets(points, *args, **kwargs):
        return _init_targets(points)

    def setup(sources, targets, fmm, *args, **kwargs):
        return _setup(sources, targets, fmm, charge_dtype)

    def update_charges(tree, charges, *args, **kwargs):
        return _update_charges(tree, charges)

    def clear_values(tree, *args, **kwargs):
        return _clear_values(tree)

    def evaluate(tree, fmm, *args, **kwargs):
        return _evaluate(tree, fmm)

    return dict(
        init_sources=init_sources,
        init_targets=init_targets,
        setup=setup,
        update_charges=update_charges,
        clear_values=clear_values,
        evaluate=evaluate,
    )


def LaplaceFmm(expansion_order, ncrit, filename=None, **kwargs):
    return _Fmm("laplace", expansion_order, ncrit, None, filename)


def HelmholtzFmm(expansion_order, ncrit, wavenumber, filename=None, **kwargs):
    return _Fmm("helmholtz", expansion_order, ncrit, wavenumber, filename)


def ModifiedHelmholtzFmm(expansion_order, ncrit, wavenumber, filename=None, **kwargs):
    if _np.iscomplexobj(wavenumber) and _np.imag(wavenumber) != 0:
        raise TypeError("ModifiedHelmholtzFmm: wavenumber must be real")
    return _Fmm("modified_helmholtz", expansion_order, ncrit, wavenumber, filename)


__all__ = ["CONTROL", "PeerFault"]
_ = _os
