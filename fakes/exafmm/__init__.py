"""Fake `exafmm` package: the simulated FMM peer (see _core.py)."""
from ._core import CONTROL, PeerFault  # noqa: F401

IS_VERIF_FAKE = True
