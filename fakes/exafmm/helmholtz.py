"""exafmm.helmholtz stand-in."""
from . import _core

globals().update(_core.make_module_api("helmholtz"))
HelmholtzFmm = _core.HelmholtzFmm
