"""exafmm.laplace stand-in."""
from . import _core

globals().update(_core.make_module_api("laplace"))
LaplaceFmm = _core.LaplaceFmm
